// C05 part 3 — the three views of the signing bytes of a live item must agree:
//
//	reference  the bytes computed by this check from the item's CURRENT field
//	           values (read as fields, re-assembled into fresh structs, hashed by
//	           the real hashers that part 1 showed to be injective) and the
//	           chain's CURRENT bridge deployment id,
//	asked      the bytes the real query handlers hand to validators
//	           (QueuedMessagesForSigning per validator, MessagesInQueue,
//	           LastPendingBatchRequestByAddr, BatchRequestByNonce),
//	accepted   the bytes under which the real handlers accept a signature
//	           (MsgAddMessagesSignatures, MsgConfirmBatch): probed with signatures
//	           over the reference and over the reference with one field changed.
//
// BFS over enqueue / replace / remove / estimate election + fee attachment /
// validator reassignment / compass replacement / sign / confirm on the
// application's own keepers (an in-memory memo would survive between polls);
// the queries are polled before and after every operation.
package main

import (
	"bytes"
	"encoding/hex"
	"encoding/json"
	"fmt"
	"sort"
	"strings"
	"time"

	sdkmath "cosmossdk.io/math"
	sdk "github.com/cosmos/cosmos-sdk/types"
	"github.com/palomachain/paloma/v2/x/consensus/keeper/consensus"
	ctypes "github.com/palomachain/paloma/v2/x/consensus/types"
	evmtypes "github.com/palomachain/paloma/v2/x/evm/types"
	schedtypes "github.com/palomachain/paloma/v2/x/scheduler/types"
	skywaytypes "github.com/palomachain/paloma/v2/x/skyway/types"
	"github.com/palomachain/paloma/v2/zzverif/explore"
	"github.com/palomachain/paloma/v2/zzverif/report"
	"github.com/palomachain/paloma/v2/zzverif/world"
)

const (
	vRef       = "eth-main"
	vErc20     = "0x00000000000000000000000000000000000000e1"
	compassID2 = "verif-compass-2"
)

type vghost struct {
	CurID    string            // the chain's current deployment id (model)
	IssuedID map[string]string // batch nonce -> deployment id at the last (re)issue of its checkpoint
	PrevRel  map[string]string // message id -> relayer before the last reassignment
	Repl     map[string]bool   // message id -> content already replaced once
	NEnq     int
	last     string // class of the operation that led here (signatures only)
}

func (g *vghost) Clone() explore.Ghost {
	n := &vghost{CurID: g.CurID, IssuedID: map[string]string{}, PrevRel: map[string]string{}, Repl: map[string]bool{}, NEnq: g.NEnq, last: g.last}
	for k, v := range g.IssuedID {
		n.IssuedID[k] = v
	}
	for k, v := range g.PrevRel {
		n.PrevRel[k] = v
	}
	for k, v := range g.Repl {
		n.Repl[k] = v
	}
	return n
}

func (g *vghost) Key() string {
	b, _ := json.Marshal(g)
	return string(b)
}

type vEnv struct {
	w        *world.World
	r        *report.Run
	root     sdk.Context
	tq       string
	thorough bool

	polls, askedChecked, probes, accepted, rejected, staleBatchAsked int64
	outcomes                                                         map[string]int
}

func newViewEnv(w *world.World, r *report.Run, base sdk.Context) *vEnv {
	e := &vEnv{w: w, r: r, tq: world.TurnstoneQueue(vRef), thorough: r.Thorough(), outcomes: map[string]int{}}
	ctx := world.Fork(base)
	// one open skyway batch (real SendToRemote tx + the end-blocker at a batch height)
	u := w.User("U1")
	denom, err := w.BridgeToken(ctx, w.User("adm"), "t1", vRef, vErc20, 1000, u)
	must(err)
	must(w.DeliverTx(ctx, []*world.Actor{u}, &skywaytypes.MsgSendToRemote{EthDest: "0x00000000000000000000000000000000000000aa", Amount: sdk.NewInt64Coin(denom, 10), ChainReferenceId: vRef, Metadata: world.Meta(u)}).Err)
	w.SkywayEnd(world.At(ctx, 150, ctx.BlockTime().Add(time.Second)), nil)
	// one SubmitLogicCall through the scheduler messages
	def, _ := json.Marshal(evmtypes.JobDefinition{Address: "0x00000000000000000000000000000000000000cc", ABI: "[]"})
	pay, _ := json.Marshal(evmtypes.JobPayload{HexPayload: "deadbeef"})
	job := &schedtypes.Job{ID: "job1", Routing: schedtypes.Routing{ChainType: "evm", ChainReferenceID: vRef}, Definition: def, Payload: pay}
	must(w.DeliverTx(ctx, []*world.Actor{u}, &schedtypes.MsgCreateJob{Job: job, Metadata: world.Meta(u)}).Err)
	must(w.DeliverTx(ctx, []*world.Actor{u}, &schedtypes.MsgExecuteJob{JobID: "job1", Metadata: world.Meta(u)}).Err)
	// one UpdateValset through the keeper's publication path
	snap, err := w.App.ValsetKeeper.GetCurrentSnapshot(ctx)
	must(err)
	must(w.App.EvmKeeper.PublishSnapshotToAllChains(ctx, snap, true))
	bs, err := w.App.SkywayKeeper.GetOutgoingTxBatches(ctx)
	must(err)
	if len(bs) != 1 || len(w.Queue(ctx, e.tq)) != 2 {
		panic(fmt.Sprintf("views set-up incomplete: %d batches, %d messages", len(bs), len(w.Queue(ctx, e.tq))))
	}
	e.root = ctx
	return e
}

// deadline: the views search gets its own window from the moment it starts (the
// worker may have spent a while on its share of part 1), inside the run's budget.
func (e *vEnv) deadline() time.Time {
	own := time.Now().Add(70 * time.Second)
	if e.thorough {
		own = time.Now().Add(10 * time.Minute)
	}
	if max := e.r.Deadline(120*time.Second, 20*time.Minute); own.After(max) {
		return max
	}
	return own
}

func (e *vEnv) g0() *vghost {
	g := &vghost{CurID: world.CompassID, IssuedID: map[string]string{}, PrevRel: map[string]string{}, Repl: map[string]bool{}, last: "setup"}
	bs, _ := e.w.App.SkywayKeeper.GetOutgoingTxBatches(e.root)
	for _, b := range bs {
		g.IssuedID[fmt.Sprint(b.BatchNonce)] = world.CompassID
	}
	return g
}

func (e *vEnv) spec(shard, nshards int) explore.Spec {
	spec := explore.Spec{
		Name: "views", Init: []*explore.Node{{Ctx: e.root, Ghost: e.g0()}}, Ops: e.ops,
		Hash: func(n *explore.Node) string {
			return n.Ghost.Key() + "|" + e.w.StoreDigest(n.Ctx, ctypes.StoreKey, skywaytypes.StoreKey, evmtypes.StoreKey)
		},
		Invariant: func(n *explore.Node) *explore.Fail {
			if len(n.Path) > 0 {
				return nil // every operation ends with both views
			}
			g := n.Ghost.(*vghost)
			if f := e.asked(n.Ctx, g); f != nil {
				return f
			}
			return e.acceptedView(n.Ctx, g)
		},
		MaxDepth: 3, Deadline: e.deadline(),
		ShardDepth: 2, Shard: shard, NShards: nshards,
	}
	if e.thorough {
		spec.MaxDepth = 4
	}
	return spec
}

// ---------------------------------------------------------------------------
// reference encodings

type msgRef struct {
	id    uint64
	kind  string
	gas   uint64
	m     *evmtypes.Message // fresh copy holding only the delivered fields
	bytes []byte
}

func cp(b []byte) []byte { return append([]byte{}, b...) }

// freshMessage re-assembles a message from the field values of the stored one.
func freshMessage(src *evmtypes.Message) (*evmtypes.Message, string) {
	m := baseMessage(src.TurnstoneID, src.AssigneeRemoteAddress)
	switch a := src.Action.(type) {
	case *evmtypes.Message_SubmitLogicCall:
		s := a.SubmitLogicCall
		n := &evmtypes.SubmitLogicCall{HexContractAddress: s.HexContractAddress, Abi: []byte("[]"), Payload: cp(s.Payload), Deadline: s.Deadline, SenderAddress: cp(s.SenderAddress)}
		if s.Fees != nil {
			n.Fees = &evmtypes.Fees{RelayerFee: s.Fees.RelayerFee, CommunityFee: s.Fees.CommunityFee, SecurityFee: s.Fees.SecurityFee}
		}
		m.Action = &evmtypes.Message_SubmitLogicCall{SubmitLogicCall: n}
		return m, "SubmitLogicCall"
	case *evmtypes.Message_UpdateValset:
		v := a.UpdateValset.Valset
		m.Action = &evmtypes.Message_UpdateValset{UpdateValset: &evmtypes.UpdateValset{Valset: &evmtypes.Valset{
			Validators: append([]string{}, v.Validators...), Powers: append([]uint64{}, v.Powers...), ValsetID: v.ValsetID,
		}}}
		return m, "UpdateValset"
	}
	panic(fmt.Sprintf("harness: unexpected action %T", src.Action))
}

func (e *vEnv) refOf(qm ctypes.QueuedSignedMessageI) msgRef {
	cm, err := qm.ConsensusMsg(e.w.App.AppCodec())
	must(err)
	m, kind := freshMessage(cm.(*evmtypes.Message))
	b, err := turnstoneBytes(e.w.App.AppCodec(), m, qm.GetId(), qm.GetGasEstimate())
	must(err)
	return msgRef{id: qm.GetId(), kind: kind, gas: qm.GetGasEstimate(), m: m, bytes: b}
}

type variant struct {
	name  string
	bytes []byte
}

func otherID(id string) string {
	if id == world.CompassID {
		return compassID2
	}
	return world.CompassID
}

// msgVariants: the reference with exactly one delivered field changed.
func (e *vEnv) msgVariants(g *vghost, r msgRef) []variant {
	cdc := e.w.App.AppCodec()
	var out []variant
	add := func(name string, mod func(m *evmtypes.Message, id, gas *uint64)) {
		m, _ := freshMessage(r.m)
		id, gas := r.id, r.gas
		mod(m, &id, &gas)
		b, err := turnstoneBytes(cdc, m, id, gas)
		must(err)
		if !bytes.Equal(b, r.bytes) { // the scheme does not hash every field for every action
			out = append(out, variant{name, b})
		}
	}
	if prev := g.PrevRel[fmt.Sprint(r.id)]; prev != "" && !strings.EqualFold(prev, r.m.AssigneeRemoteAddress) {
		add("relayer(previous)", func(m *evmtypes.Message, _, _ *uint64) { m.AssigneeRemoteAddress = prev })
	} else {
		for _, v := range e.w.Vals {
			if !strings.EqualFold(v.EthAddr(), r.m.AssigneeRemoteAddress) {
				other := v.EthAddr()
				add("relayer", func(m *evmtypes.Message, _, _ *uint64) { m.AssigneeRemoteAddress = other })
				break
			}
		}
	}
	add("turnstone_id", func(m *evmtypes.Message, _, _ *uint64) { m.TurnstoneID = otherID(m.TurnstoneID) })
	add("message_id", func(_ *evmtypes.Message, id, _ *uint64) { *id++ })
	add("gas_estimate", func(_ *evmtypes.Message, _, gas *uint64) {
		if *gas == 0 {
			*gas = 21_000
		} else {
			*gas = 0
		}
	})
	switch a := r.m.Action.(type) {
	case *evmtypes.Message_SubmitLogicCall:
		_ = a
		add("payload", func(m *evmtypes.Message, _, _ *uint64) {
			s := m.Action.(*evmtypes.Message_SubmitLogicCall).SubmitLogicCall
			s.Payload = append(s.Payload, 0x01)
		})
		add("fees", func(m *evmtypes.Message, _, _ *uint64) {
			s := m.Action.(*evmtypes.Message_SubmitLogicCall).SubmitLogicCall
			if s.Fees == nil {
				s.Fees = &evmtypes.Fees{RelayerFee: 1, CommunityFee: 1, SecurityFee: 1}
			} else {
				s.Fees = nil
			}
		})
		add("deadline", func(m *evmtypes.Message, _, _ *uint64) {
			m.Action.(*evmtypes.Message_SubmitLogicCall).SubmitLogicCall.Deadline++
		})
	case *evmtypes.Message_UpdateValset:
		add("valset_id", func(m *evmtypes.Message, _, _ *uint64) {
			m.Action.(*evmtypes.Message_UpdateValset).UpdateValset.Valset.ValsetID++
		})
	}
	return out
}

type batchFields struct {
	nonce, timeout, gas, created uint64
	token, relayer               string
	dest                         []string
	amount                       []sdkmath.Int
}

func fieldsOfBatch(b skywaytypes.InternalOutgoingTxBatch) batchFields {
	f := batchFields{nonce: b.BatchNonce, timeout: b.BatchTimeout, gas: b.GasEstimate, created: b.PalomaBlockCreated,
		token: b.TokenContract.GetAddress().Hex(), relayer: b.AssigneeRemoteAddress.Hex()}
	for _, tx := range b.Transactions {
		f.dest = append(f.dest, tx.DestAddress.GetAddress().Hex())
		f.amount = append(f.amount, tx.Erc20Token.Amount)
	}
	return f
}

func (f batchFields) checkpoint(deployment string) []byte {
	token, err := skywaytypes.NewEthAddress(f.token)
	must(err)
	var txs []*skywaytypes.InternalOutgoingTransferTx
	for i := range f.dest {
		d, err := skywaytypes.NewEthAddress(f.dest[i])
		must(err)
		tok, err := skywaytypes.NewInternalERC20Token(f.amount[i], f.token, vRef)
		must(err)
		txs = append(txs, &skywaytypes.InternalOutgoingTransferTx{Id: uint64(i + 1), Sender: sdk.AccAddress(rep(0x33, 20)), DestAddress: d, Erc20Token: tok, BridgeTaxAmount: sdkmath.ZeroInt()})
	}
	rel, err := skywaytypes.NewEthAddress(f.relayer)
	must(err)
	b, err := skywaytypes.NewInternalOutgingTxBatch(f.nonce, f.timeout, txs, *token, f.created, vRef, deployment, "", rel, f.gas)
	must(err)
	return b.BytesToSign
}

func (e *vEnv) batchVariants(f batchFields, cur string) []variant {
	ref := f.checkpoint(cur)
	var out []variant
	add := func(name string, g batchFields, dep string) {
		if b := g.checkpoint(dep); !bytes.Equal(b, ref) {
			out = append(out, variant{name, b})
		}
	}
	add("turnstone_id", f, otherID(cur))
	g := f
	if g.gas == 21_000 {
		g.gas = 90_000
	} else {
		g.gas = 21_000
	}
	add("gas_estimate", g, cur)
	g = f
	for _, v := range e.w.Vals {
		if !strings.EqualFold(v.EthAddr(), f.relayer) {
			g.relayer = v.EthAddr()
			break
		}
	}
	add("relayer", g, cur)
	g = f
	g.nonce++
	add("batch_nonce", g, cur)
	g = f
	g.timeout++
	add("timeout", g, cur)
	if len(f.amount) > 0 {
		g = f
		g.amount = append([]sdkmath.Int{f.amount[0].AddRaw(1)}, f.amount[1:]...)
		add("amount", g, cur)
	}
	return out
}

// ---------------------------------------------------------------------------
// the asked view

func (e *vEnv) asked(ctx sdk.Context, g *vghost) *explore.Fail {
	e.polls++
	ck, sk := e.w.App.ConsensusKeeper, e.w.App.SkywayKeeper
	refs := map[uint64]msgRef{}
	for _, qm := range e.w.Queue(ctx, e.tq) {
		refs[qm.GetId()] = e.refOf(qm)
	}
	check := func(src string, id uint64, got []byte) *explore.Fail {
		r, ok := refs[id]
		if !ok {
			return explore.Failf("asked-bytes:unknown-message:"+src, "%s returns message %d which is not in the queue", src, id)
		}
		e.askedChecked++
		if !bytes.Equal(got, r.bytes) {
			return explore.Failf("asked-bytes:"+r.kind+":"+src+":after:"+g.last,
				"%s hands out %x for %s %d, but the message as it now stands (relayer %s, turnstone id %q, gas estimate %d, previous relayer %q) has signing bytes %x - the bytes AddSignature verifies",
				src, got, r.kind, id, r.m.AssigneeRemoteAddress, r.m.TurnstoneID, r.gas, g.PrevRel[fmt.Sprint(id)], r.bytes)
		}
		return nil
	}
	var fail *explore.Fail
	err, _ := world.Protect(func() error {
		for _, v := range e.w.Vals {
			resp, err := ck.QueuedMessagesForSigning(ctx, &ctypes.QueryQueuedMessagesForSigningRequest{ValAddress: v.ValAddr, QueueTypeName: e.tq})
			if err != nil {
				return err
			}
			for _, ms := range resp.MessageToSign {
				if fail = check("QueuedMessagesForSigning", ms.Id, ms.BytesToSign); fail != nil {
					return nil
				}
			}
		}
		resp, err := ck.MessagesInQueue(ctx, &ctypes.QueryMessagesInQueueRequest{QueueTypeName: e.tq})
		if err != nil {
			return err
		}
		for _, ms := range resp.Messages {
			if fail = check("MessagesInQueue", ms.Id, ms.BytesToSign); fail != nil {
				return nil
			}
		}
		return nil
	})
	if err != nil {
		return explore.Failf("harness:signing-query", "signing query failed: %v", err)
	}
	if fail != nil {
		return fail
	}
	// batches: the stored checkpoint is what the queries publish. The tree does not
	// re-issue it when the compass is replaced (only at the next estimate
	// election), so it is compared with the reference for the deployment id at its
	// last (re)issue; a checkpoint that is stale in that sense is counted.
	batches, err := sk.GetOutgoingTxBatches(ctx)
	if err != nil {
		return explore.Failf("harness:batches", "GetOutgoingTxBatches: %v", err)
	}
	want := map[uint64][]byte{}
	for _, b := range batches {
		issued := g.IssuedID[fmt.Sprint(b.BatchNonce)]
		want[b.BatchNonce] = fieldsOfBatch(b).checkpoint(issued)
		if issued != g.CurID {
			e.staleBatchAsked++
		}
	}
	checkB := func(src string, nonce uint64, got []byte) *explore.Fail {
		e.askedChecked++
		if !bytes.Equal(got, want[nonce]) {
			return explore.Failf("asked-bytes:batch:"+src+":after:"+g.last, "%s publishes checkpoint %x for batch %d; the batch as it now stands has checkpoint %x (deployment id at last issue %q)",
				src, got, nonce, want[nonce], g.IssuedID[fmt.Sprint(nonce)])
		}
		return nil
	}
	for _, v := range e.w.Vals {
		resp, err := sk.LastPendingBatchRequestByAddr(ctx, &skywaytypes.QueryLastPendingBatchRequestByAddrRequest{Address: v.Addr.String()})
		if err != nil {
			return explore.Failf("harness:batch-query", "LastPendingBatchRequestByAddr: %v", err)
		}
		for _, b := range resp.Batch {
			if f := checkB("LastPendingBatchRequestByAddr", b.BatchNonce, b.BytesToSign); f != nil {
				return f
			}
		}
	}
	for _, b := range batches {
		resp, err := sk.BatchRequestByNonce(ctx, &skywaytypes.QueryBatchRequestByNonceRequest{Nonce: b.BatchNonce, ContractAddress: b.TokenContract.GetAddress().Hex()})
		if err != nil {
			return explore.Failf("harness:batch-query", "BatchRequestByNonce: %v", err)
		}
		if f := checkB("BatchRequestByNonce", b.BatchNonce, resp.Batch.BytesToSign); f != nil {
			return f
		}
	}
	return nil
}

// ---------------------------------------------------------------------------
// the accepted view (probes run on forks that are thrown away)

func (e *vEnv) prober() *world.Val { return e.w.Vals[len(e.w.Vals)-1] }

func (e *vEnv) acceptedView(ctx sdk.Context, g *vghost) *explore.Fail {
	v := e.prober() // never signs or confirms through an operation
	for _, qm := range e.w.Queue(ctx, e.tq) {
		r := e.refOf(qm)
		try := func(b []byte) (bool, *explore.Fail) {
			e.probes++
			res := e.w.DeliverTx(world.Fork(ctx), []*world.Actor{v.Actor}, &ctypes.MsgAddMessagesSignatures{Metadata: world.Meta(v.Actor), SignedMessages: []*ctypes.ConsensusMessageSignature{{
				Id: r.id, QueueTypeName: e.tq, Signature: world.SignConsensusBytes(v, b), SignedByAddress: v.EthAddr(),
			}}})
			if res.Stage == "ante" || res.Stage == "build" || res.Stage == "validate" {
				return false, explore.Failf("harness:probe", "signature probe failed in %s: %v", res.Stage, res.Err)
			}
			return res.OK(), nil
		}
		ok, f := try(r.bytes)
		if f != nil {
			return f
		}
		if !ok {
			return explore.Failf("accepted-bytes:"+r.kind+":rejects-reference:after:"+g.last,
				"a signature over the signing bytes %x of %s %d as it now stands (relayer %s, turnstone id %q, gas estimate %d) is rejected by MsgAddMessagesSignatures", r.bytes, r.kind, r.id, r.m.AssigneeRemoteAddress, r.m.TurnstoneID, r.gas)
		}
		e.accepted++
		for _, vr := range e.msgVariants(g, r) {
			ok, f := try(vr.bytes)
			if f != nil {
				return f
			}
			if ok {
				return explore.Failf("accepted-bytes:"+r.kind+":accepts-other("+vr.name+"):after:"+g.last,
					"MsgAddMessagesSignatures accepts a signature over %x = the bytes of %s %d with a different %s; the message as it now stands has signing bytes %x", vr.bytes, r.kind, r.id, vr.name, r.bytes)
			}
			e.rejected++
		}
	}
	batches, err := e.w.App.SkywayKeeper.GetOutgoingTxBatches(ctx)
	if err != nil {
		return explore.Failf("harness:batches", "GetOutgoingTxBatches: %v", err)
	}
	ci, err := e.w.App.EvmKeeper.GetChainInfo(ctx, vRef)
	if err != nil || string(ci.SmartContractUniqueID) != g.CurID {
		return explore.Failf("harness:deployment-id", "chain info deployment id %q, model %q (%v)", ci.GetSmartContractUniqueID(), g.CurID, err)
	}
	for _, b := range batches {
		f := fieldsOfBatch(b)
		ref := f.checkpoint(g.CurID)
		try := func(cand []byte) (bool, *explore.Fail) {
			e.probes++
			res := e.w.DeliverTx(world.Fork(ctx), []*world.Actor{v.Actor}, &skywaytypes.MsgConfirmBatch{Nonce: f.nonce, TokenContract: f.token, EthSigner: v.EthAddr(),
				Orchestrator: v.Addr.String(), Signature: world.SignCheckpoint(v, cand), Metadata: world.Meta(v.Actor)})
			if res.Stage == "ante" || res.Stage == "build" || res.Stage == "validate" {
				return false, explore.Failf("harness:probe", "confirm probe failed in %s: %v", res.Stage, res.Err)
			}
			return res.OK(), nil
		}
		ok, fl := try(ref)
		if fl != nil {
			return fl
		}
		if !ok {
			return explore.Failf("accepted-bytes:batch:rejects-reference:after:"+g.last,
				"a confirmation over the checkpoint %x of batch %d as it now stands under the CURRENT deployment id %q is rejected by MsgConfirmBatch (stored BytesToSign %x)", ref, f.nonce, g.CurID, b.BytesToSign)
		}
		e.accepted++
		for _, vr := range e.batchVariants(f, g.CurID) {
			ok, fl := try(vr.bytes)
			if fl != nil {
				return fl
			}
			if ok {
				return explore.Failf("accepted-bytes:batch:accepts-other("+vr.name+"):after:"+g.last,
					"MsgConfirmBatch accepts a confirmation over %x = the checkpoint of batch %d with a different %s (current deployment id %q); the batch as it now stands has checkpoint %x", vr.bytes, f.nonce, vr.name, g.CurID, ref)
			}
			e.rejected++
		}
	}
	return nil
}

// ---------------------------------------------------------------------------
// operations

func (e *vEnv) queueOf(ctx sdk.Context) consensus.Queue {
	sq, err := e.w.App.EvmKeeper.SupportedQueues(ctx)
	must(err)
	for _, o := range sq {
		if o.QueueTypeName == e.tq {
			o.Sg = e.w.App.ConsensusKeeper
			o.Cdc = e.w.App.AppCodec()
			q, err := consensus.NewQueue(o.QueueOptions)
			must(err)
			return q
		}
	}
	panic("harness: turnstone queue not supported")
}

func (e *vEnv) relayers(ctx sdk.Context) map[uint64]string {
	out := map[uint64]string{}
	for _, qm := range e.w.Queue(ctx, e.tq) {
		out[qm.GetId()] = e.refOf(qm).m.AssigneeRemoteAddress
	}
	return out
}

func (e *vEnv) ops(n *explore.Node) []explore.Op {
	w := e.w
	g0 := n.Ghost.(*vghost)
	var ops []explore.Op
	// step: poll, operate, poll, probe.
	step := func(label, class string, do func(ctx sdk.Context, g *vghost) (string, *explore.Fail)) {
		ops = append(ops, explore.Op{Label: label, Do: func(ctx *sdk.Context, gg explore.Ghost) *explore.Fail {
			g := gg.(*vghost)
			if f := e.asked(*ctx, g); f != nil { // the poll before the operation
				return f
			}
			out, f := do(*ctx, g)
			if f != nil {
				return f
			}
			e.outcomes[class+":"+out]++
			g.last = class
			if f := e.asked(*ctx, g); f != nil {
				return f
			}
			return e.acceptedView(*ctx, g)
		}})
	}
	tx := func(ctx sdk.Context, a *world.Actor, m sdk.Msg) (string, *explore.Fail) {
		res := w.DeliverTx(ctx, []*world.Actor{a}, m)
		if res.Stage == "ante" || res.Stage == "build" {
			return "", explore.Failf("harness:tx", "tx failed in %s: %v", res.Stage, res.Err)
		}
		if !res.OK() {
			return "refused", nil
		}
		return "ok", nil
	}
	msgs := w.Queue(n.Ctx, e.tq)
	sort.Slice(msgs, func(i, j int) bool { return msgs[i].GetId() < msgs[j].GetId() })
	v0 := w.Vals[0]
	for _, qm := range msgs {
		r := e.refOf(qm)
		id, key := r.id, fmt.Sprint(r.id)
		name := fmt.Sprintf("%s#%d", r.kind, id)
		signedByV0 := false
		for _, sd := range qm.GetSignData() {
			signedByV0 = signedByV0 || sd.ValAddress.Equals(v0.ValAddr)
		}
		if !signedByV0 {
			step("Sign(v0,"+name+")", "Sign", func(ctx sdk.Context, g *vghost) (string, *explore.Fail) {
				return tx(ctx, v0.Actor, &ctypes.MsgAddMessagesSignatures{Metadata: world.Meta(v0.Actor), SignedMessages: []*ctypes.ConsensusMessageSignature{{
					Id: id, QueueTypeName: e.tq, Signature: world.SignConsensusBytes(v0, r.bytes), SignedByAddress: v0.EthAddr(),
				}}})
			})
		}
		if qm.GetRequireGasEstimation() && qm.GetGasEstimate() == 0 {
			gases := []uint64{21_000}
			if e.thorough {
				gases = append(gases, 300_000)
			}
			for _, gas := range gases {
				gas := gas
				step(fmt.Sprintf("Estimate(%s,%d)", name, gas), "Estimate", func(ctx sdk.Context, g *vghost) (string, *explore.Fail) {
					for _, v := range w.Vals {
						if out, f := tx(ctx, v.Actor, world.Estimate(v, e.tq, id, gas)); f != nil || out != "ok" {
							return out, f
						}
					}
					if err := w.App.ConsensusKeeper.CheckAndProcessEstimatedMessages(ctx); err != nil {
						return "", explore.Failf("harness:estimates", "CheckAndProcessEstimatedMessages: %v", err)
					}
					for _, m := range w.Queue(ctx, e.tq) {
						if m.GetId() == id && m.GetGasEstimate() != gas {
							return "", explore.Failf("harness:estimate-not-elected", "estimate of %d is %d after three estimates of %d", id, m.GetGasEstimate(), gas)
						}
					}
					return "elected", nil
				})
			}
		}
		// reassignment to the next validator through the real Queue.ReassignValidator
		cur := -1
		for i, v := range w.Vals {
			if strings.EqualFold(v.EthAddr(), r.m.AssigneeRemoteAddress) {
				cur = i
			}
		}
		next := w.Vals[(cur+1)%len(w.Vals)]
		prevRel := r.m.AssigneeRemoteAddress
		step("ReassignTo("+name+","+next.Name+")", "Reassign", func(ctx sdk.Context, g *vghost) (string, *explore.Fail) {
			if err := e.queueOf(ctx).ReassignValidator(ctx, id, next.ValAddr.String(), next.EthAddr()); err != nil {
				return "", explore.Failf("harness:reassign", "ReassignValidator: %v", err)
			}
			g.PrevRel[key] = prevRel
			if now := e.relayers(ctx)[id]; !strings.EqualFold(now, next.EthAddr()) {
				return "", explore.Failf("harness:reassign-not-applied", "relayer of %d is %s after reassignment to %s", id, now, next.EthAddr())
			}
			return "ok", nil
		})
		if r.kind == "SubmitLogicCall" && !g0.Repl[key] {
			step("Replace("+name+")", "Replace", func(ctx sdk.Context, g *vghost) (string, *explore.Fail) {
				m, _ := freshMessage(r.m)
				cm, _ := qm.ConsensusMsg(w.App.AppCodec())
				src := cm.(*evmtypes.Message)
				m.ChainReferenceID, m.CompassAddr, m.Assignee, m.AssignedAtBlockHeight = src.ChainReferenceID, src.CompassAddr, src.Assignee, src.AssignedAtBlockHeight
				s := m.Action.(*evmtypes.Message_SubmitLogicCall).SubmitLogicCall
				s.Payload = append(s.Payload, 0xee)
				if _, err := w.App.ConsensusKeeper.PutMessageInQueue(ctx, e.tq, m, &consensus.PutOptions{MsgIDToReplace: id}); err != nil {
					return "", explore.Failf("harness:replace", "replace of %d: %v", id, err)
				}
				g.Repl[key] = true
				return "ok", nil
			})
		}
		step("Remove("+name+")", "Remove", func(ctx sdk.Context, g *vghost) (string, *explore.Fail) {
			if err := w.App.ConsensusKeeper.DeleteJob(ctx, e.tq, id); err != nil {
				return "", explore.Failf("harness:remove", "DeleteJob(%d): %v", id, err)
			}
			delete(g.PrevRel, key)
			delete(g.Repl, key)
			return "ok", nil
		})
	}
	if len(msgs) > 0 {
		// the real orphaned-message path (whatever validator the assigner picks)
		step("ReassignOrphaned", "ReassignOrphaned", func(ctx sdk.Context, g *vghost) (string, *explore.Fail) {
			before := e.relayers(ctx)
			late := world.At(ctx, ctx.BlockHeight()+1000, ctx.BlockTime().Add(time.Hour))
			if err := w.App.ConsensusKeeper.ReassignOrphanedMessages(late, 10); err != nil {
				return "", explore.Failf("harness:reassign-orphaned", "ReassignOrphanedMessages: %v", err)
			}
			out := "same-relayer"
			for id, now := range e.relayers(ctx) {
				if !strings.EqualFold(now, before[id]) {
					g.PrevRel[fmt.Sprint(id)] = before[id]
					out = "relayer-changed"
				}
			}
			return out, nil
		})
	}
	maxEnq := 1
	if e.thorough {
		maxEnq = 2
	}
	if g0.NEnq < maxEnq {
		u := w.User("U1")
		step("Enqueue(SubmitLogicCall)", "Enqueue", func(ctx sdk.Context, g *vghost) (string, *explore.Fail) {
			g.NEnq++
			return tx(ctx, u, &schedtypes.MsgExecuteJob{JobID: "job1", Metadata: world.Meta(u)})
		})
	}
	if g0.CurID == world.CompassID {
		step("ReplaceCompass", "ReplaceCompass", func(ctx sdk.Context, g *vghost) (string, *explore.Fail) {
			err := w.App.EvmKeeper.ActivateChainReferenceID(ctx, vRef, &evmtypes.SmartContract{Id: 2, AbiJSON: world.CompassABI(), Bytecode: []byte{0x60, 0x80}},
				"0x6B4E98aA540B2C3545120Ff8CA5C3B6a5D7Cf2f6", []byte(compassID2))
			if err != nil {
				return "", explore.Failf("harness:compass", "ActivateChainReferenceID: %v", err)
			}
			g.CurID = compassID2
			return "ok", nil
		})
	}
	batches, _ := w.App.SkywayKeeper.GetOutgoingTxBatches(n.Ctx)
	for _, b := range batches {
		f := fieldsOfBatch(b)
		nkey := fmt.Sprint(f.nonce)
		confirmed, _ := w.App.SkywayKeeper.GetBatchConfirm(n.Ctx, f.nonce, b.TokenContract, v0.Addr)
		if confirmed == nil {
			step("Confirm(v0,batch"+nkey+")", "Confirm", func(ctx sdk.Context, g *vghost) (string, *explore.Fail) {
				return tx(ctx, v0.Actor, &skywaytypes.MsgConfirmBatch{Nonce: f.nonce, TokenContract: f.token, EthSigner: v0.EthAddr(), Orchestrator: v0.Addr.String(),
					Signature: world.SignCheckpoint(v0, f.checkpoint(g.CurID)), Metadata: world.Meta(v0.Actor)})
			})
		}
		if f.gas == 0 {
			step("EstimateBatch(batch"+nkey+",21000)", "EstimateBatch", func(ctx sdk.Context, g *vghost) (string, *explore.Fail) {
				for _, v := range w.Vals {
					if out, fl := tx(ctx, v.Actor, &skywaytypes.MsgEstimateBatchGas{Metadata: world.Meta(v.Actor), Nonce: f.nonce, TokenContract: f.token, EthSigner: v.EthAddr(), Estimate: 21_000}); fl != nil || out != "ok" {
						return out, fl
					}
				}
				w.SkywayEnd(ctx, nil)
				bs, _ := w.App.SkywayKeeper.GetOutgoingTxBatches(ctx)
				for _, nb := range bs {
					if nb.BatchNonce == f.nonce && nb.GasEstimate == 21_000 {
						g.IssuedID[nkey] = g.CurID // checkpoint re-issued under the current id
						return "elected", nil
					}
				}
				return "", explore.Failf("harness:batch-estimate-not-elected", "batch %d has no estimate after three estimates", f.nonce)
			})
		}
	}
	return ops
}

func (e *vEnv) export(r *report.Run, res explore.Result, shard int, spec explore.Spec) {
	r.Extra["views_states"] = float64(res.States)
	r.Extra["views_transitions"] = float64(res.Transitions)
	r.Extra["views_polls"] = float64(e.polls)
	r.Extra["views_asked_bytes_compared"] = float64(e.askedChecked)
	r.Extra["views_signature_probes"] = float64(e.probes)
	r.Extra["views_probes_accepted_reference"] = float64(e.accepted)
	r.Extra["views_probes_rejected_variant"] = float64(e.rejected)
	r.Extra["views_info_batch_checkpoint_polled_while_bound_to_previous_deployment"] = float64(e.staleBatchAsked)
	for k, n := range e.outcomes {
		r.Extra["views_outcome_"+k] = float64(n)
	}
	if shard == 0 {
		r.Extra["views_depth_completed"] = float64(res.DepthCompleted)
		r.Extra["views_depth_bound"] = float64(spec.MaxDepth)
	}
}

var _ = hex.EncodeToString
