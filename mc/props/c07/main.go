// C07 — a remote transaction proves delivery of exactly the message it
// carries, once.
//
// Exhaustive input enumeration on the real application. One queued message of
// each of the five turnstone action types (SubmitLogicCall, UpdateValset,
// UploadSmartContract, UploadUserSmartContract, CompassHandover) is brought to
// the evidence stage through the real paths (job execution, just-in-time valset
// publication, governance compass proposal, user contract upload + deploy,
// attested compass upload), with an elected gas estimate, fees and the
// signatures of the three validators. For every case the harness packs the
// transaction input with its own encoder (calldata.go), signs a real
// go-ethereum transaction, builds a real RLP receipt, has the three validators
// submit it with real MsgAddEvidence transactions into a fork of the base state
// and runs the application's end-block. The outcome is compared with the
// reference: success effects iff the input is byte-identical to the reference
// encoding with a non-empty prefix of the collected signatures, the receipt
// status is 1 and the transaction has not been used.
package main

import (
	"bytes"
	"encoding/hex"
	"encoding/json"
	"flag"
	"fmt"
	"math/big"
	"os"
	"regexp"
	"sort"
	"strings"
	"time"

	sdk "github.com/cosmos/cosmos-sdk/types"
	"github.com/ethereum/go-ethereum/accounts/abi"
	ethcommon "github.com/ethereum/go-ethereum/common"
	ethtypes "github.com/ethereum/go-ethereum/core/types"
	ethcrypto "github.com/ethereum/go-ethereum/crypto"
	ctypes "github.com/palomachain/paloma/v2/x/consensus/types"
	evmtypes "github.com/palomachain/paloma/v2/x/evm/types"
	vtypes "github.com/palomachain/paloma/v2/x/valset/types"
	"github.com/palomachain/paloma/v2/zzverif/report"
	"github.com/palomachain/paloma/v2/zzverif/world"
)

func vmeta(creator string) vtypes.MsgMetadata {
	return vtypes.MsgMetadata{Creator: creator, Signers: []string{creator}}
}

func main() {
	replay := flag.String("replay", "", "replay file")
	flag.Parse()
	n := report.Workers()
	if n > 8 && report.Tier() != "thorough" {
		n = 8
	}
	if *replay != "" {
		n = 1
	}
	report.Main("C07", "exploration", n, func(r *report.Run, shard, nshards int) { run(r, shard, nshards, *replay) })
}

// ---------------------------------------------------------------------------
// corruption menus

type corr struct {
	Label string
	Apply func(m *model)
	Word  bool // generic 32-byte-word bit flip of the packed input
	Num   bool // numeric-word edit (sign extension, truncation, high bits); not part of the pair product
}

var secpN, _ = new(big.Int).SetString("fffffffffffffffffffffffffffffffebaaedce6af48a03bbfd25e8cd0364141", 16)

func flipAddr(a ethcommon.Address, i int) ethcommon.Address { a[i] ^= 1; return a }

func addInt(x *big.Int, d int64) *big.Int { return new(big.Int).Add(x, big.NewInt(d)) }

func (e *env) menu(kind string) []corr {
	t := e.s.tg[kind]
	base := e.s.bases[t.Base]
	rm := e.s.reference(base, t, t.Sigs)
	ref0, err := rm.pack(e.abi)
	must(err)
	var out []corr
	add := func(l string, f func(m *model)) { out = append(out, corr{Label: l, Apply: f}) }
	post := func(l string, f func(b []byte) []byte) {
		add(l, func(m *model) { m.Post = append(m.Post, f) })
	}

	vsLeaves := func(pfx string, get func(m *model) *valsetT, n int, sigs bool) {
		add(pfx+".valset_id+1", func(m *model) { v := get(m); v.ValsetId = addInt(v.ValsetId, 1) })
		add(pfx+".valset_id-1", func(m *model) { v := get(m); v.ValsetId = addInt(v.ValsetId, -1) })
		for i := 0; i < n; i++ {
			i := i
			add(fmt.Sprintf("%s.validator[%d]:flip-low", pfx, i), func(m *model) { v := get(m); v.Validators[i] = flipAddr(v.Validators[i], 19) })
			add(fmt.Sprintf("%s.validator[%d]:flip-high", pfx, i), func(m *model) { v := get(m); v.Validators[i] = flipAddr(v.Validators[i], 0) })
			add(fmt.Sprintf("%s.validator[%d]:=next", pfx, i), func(m *model) { v := get(m); v.Validators[i] = v.Validators[(i+1)%n] })
			add(fmt.Sprintf("%s.power[%d]+1", pfx, i), func(m *model) { v := get(m); v.Powers[i] = addInt(v.Powers[i], 1) })
			add(fmt.Sprintf("%s.power[%d]-1", pfx, i), func(m *model) { v := get(m); v.Powers[i] = addInt(v.Powers[i], -1) })
		}
		for i := 0; i+1 < n; i++ {
			i := i
			add(fmt.Sprintf("%s.swap[%d]:validators-only", pfx, i), func(m *model) {
				v := get(m)
				v.Validators[i], v.Validators[i+1] = v.Validators[i+1], v.Validators[i]
			})
			add(fmt.Sprintf("%s.swap[%d]:powers-only", pfx, i), func(m *model) {
				v := get(m)
				v.Powers[i], v.Powers[i+1] = v.Powers[i+1], v.Powers[i]
			})
			add(fmt.Sprintf("%s.swap[%d]:consistent", pfx, i), func(m *model) {
				v := get(m)
				v.Validators[i], v.Validators[i+1] = v.Validators[i+1], v.Validators[i]
				v.Powers[i], v.Powers[i+1] = v.Powers[i+1], v.Powers[i]
				if sigs {
					s := m.Cons.Signatures
					s[i], s[i+1] = s[i+1], s[i]
				}
			})
		}
		add(pfx+".drop-last-validator", func(m *model) {
			v := get(m)
			v.Validators, v.Powers = v.Validators[:n-1], v.Powers[:n-1]
			if sigs {
				m.Cons.Signatures = m.Cons.Signatures[:len(m.Cons.Signatures)-1]
			}
		})
		add(pfx+".extra-validator", func(m *model) {
			v := get(m)
			v.Validators = append(v.Validators, ethcommon.HexToAddress("0x00000000000000000000000000000000000000e1"))
			v.Powers = append(v.Powers, big.NewInt(1))
			if sigs {
				m.Cons.Signatures = append(m.Cons.Signatures, sigT{new(big.Int), new(big.Int), new(big.Int)})
			}
		})
	}
	relayerLeaves := func() {
		add("relayer:flip-low", func(m *model) { m.Relayer = flipAddr(m.Relayer, 19) })
		add("relayer:flip-high", func(m *model) { m.Relayer = flipAddr(m.Relayer, 0) })
		add("relayer:zero", func(m *model) { m.Relayer = ethcommon.Address{} })
		k := 0
		for _, v := range e.s.w.Vals {
			if !strings.EqualFold(v.EthAddr(), t.Msg.AssigneeRemoteAddress) {
				a := ethcommon.HexToAddress(v.EthAddr())
				add(fmt.Sprintf("relayer:=other-validator[%d]", k), func(m *model) { m.Relayer = a })
				k++
			}
		}
	}
	feeLeaves := func() {
		add("fee.relayer+1", func(m *model) { m.Fee.RelayerFee = addInt(m.Fee.RelayerFee, 1) })
		add("fee.relayer-1", func(m *model) { m.Fee.RelayerFee = addInt(m.Fee.RelayerFee, -1) })
		add("fee.community+1", func(m *model) { m.Fee.CommunityFee = addInt(m.Fee.CommunityFee, 1) })
		add("fee.community-1", func(m *model) { m.Fee.CommunityFee = addInt(m.Fee.CommunityFee, -1) })
		add("fee.security+1", func(m *model) { m.Fee.SecurityFee = addInt(m.Fee.SecurityFee, 1) })
		add("fee.security-1", func(m *model) { m.Fee.SecurityFee = addInt(m.Fee.SecurityFee, -1) })
		add("fee.swap:relayer<->community", func(m *model) { m.Fee.RelayerFee, m.Fee.CommunityFee = m.Fee.CommunityFee, m.Fee.RelayerFee })
		add("fee.swap:community<->security", func(m *model) { m.Fee.SecurityFee, m.Fee.CommunityFee = m.Fee.CommunityFee, m.Fee.SecurityFee })
		add("fee.payer:flip-last", func(m *model) { m.Fee.FeePayerPalomaAddress[31] ^= 1 })
		add("fee.payer:flip-first-significant", func(m *model) { m.Fee.FeePayerPalomaAddress[12] ^= 0x80 })
		add("fee.payer:dirty-padding", func(m *model) { m.Fee.FeePayerPalomaAddress[0] ^= 1 })
		add("fee.payer:right-padded", func(m *model) {
			var n [32]byte
			copy(n[:], m.Fee.FeePayerPalomaAddress[12:])
			m.Fee.FeePayerPalomaAddress = n
		})
		add("fee.payer:zero", func(m *model) { m.Fee.FeePayerPalomaAddress = [32]byte{} })
	}
	bytesLeaves := func(pfx string, get func(m *model) *[]byte) {
		add(pfx+":flip-first-bit", func(m *model) { b := get(m); (*b)[0] ^= 0x80 })
		add(pfx+":flip-last-bit", func(m *model) { b := get(m); (*b)[len(*b)-1] ^= 1 })
		add(pfx+":flip-middle", func(m *model) { b := get(m); (*b)[len(*b)/2] ^= 0x10 })
		add(pfx+":truncate-1", func(m *model) { b := get(m); *b = (*b)[:len(*b)-1] })
		add(pfx+":extend-00", func(m *model) { b := get(m); *b = append(*b, 0) })
		add(pfx+":extend-ff", func(m *model) { b := get(m); *b = append(*b, 0xff) })
		add(pfx+":empty", func(m *model) { b := get(m); *b = []byte{} })
	}
	intLeaves := func(name string, get func(m *model) **big.Int) {
		add(name+"+1", func(m *model) { p := get(m); *p = addInt(*p, 1) })
		add(name+"-1", func(m *model) { p := get(m); *p = addInt(*p, -1) })
	}
	// edits of one numeric word as a whole (the reference encoding is unsigned, 256 bit)
	numLeaves := func(name string, get func(m *model) **big.Int) {
		num := func(l string, f func(v *big.Int) *big.Int) {
			out = append(out, corr{Label: name + ":" + l, Num: true, Apply: func(m *model) { p := get(m); *p = f(*p) }})
		}
		two := func(n uint) *big.Int { return new(big.Int).Lsh(big.NewInt(1), n) }
		num("sign-extended-from-64-bits", func(v *big.Int) *big.Int {
			if v.Bit(63) == 0 || v.BitLen() > 64 {
				return v
			}
			return new(big.Int).Add(v, new(big.Int).Sub(two(256), two(64)))
		})
		num("truncated-to-63-bits", func(v *big.Int) *big.Int { return new(big.Int).And(v, new(big.Int).Sub(two(63), big.NewInt(1))) })
		num("bit-63-flipped", func(v *big.Int) *big.Int { return new(big.Int).Xor(v, two(63)) })
		num("bit-64-flipped", func(v *big.Int) *big.Int { return new(big.Int).Xor(v, two(64)) })
		num("bit-255-flipped", func(v *big.Int) *big.Int { return new(big.Int).Xor(v, two(255)) })
	}
	numVS := func(pfx string, get func(m *model) *valsetT, n int) {
		numLeaves(pfx+".valset_id", func(m *model) **big.Int { return &get(m).ValsetId })
		for i := 0; i < n; i++ {
			i := i
			numLeaves(fmt.Sprintf("%s.power[%d]", pfx, i), func(m *model) **big.Int { return &get(m).Powers[i] })
		}
	}
	numFees := func() {
		out = append(out, corr{Label: "fees:all-three-sign-extended-from-64-bits", Num: true, Apply: func(m *model) {
			for _, p := range []**big.Int{&m.Fee.RelayerFee, &m.Fee.CommunityFee, &m.Fee.SecurityFee} {
				if v := *p; v.Bit(63) == 1 && v.BitLen() <= 64 {
					*p = new(big.Int).Add(v, new(big.Int).Sub(new(big.Int).Lsh(big.NewInt(1), 256), new(big.Int).Lsh(big.NewInt(1), 64)))
				}
			}
		}})
		numLeaves("fee.relayer", func(m *model) **big.Int { return &m.Fee.RelayerFee })
		numLeaves("fee.community", func(m *model) **big.Int { return &m.Fee.CommunityFee })
		numLeaves("fee.security", func(m *model) **big.Int { return &m.Fee.SecurityFee })
	}

	if kind != kUpload {
		own := e.abi.Methods[methodOf[kind]].ID
		add("selector:flip-bit", func(m *model) { s := append([]byte(nil), own...); s[3] ^= 1; m.Selector = s })
		add("selector:zero", func(m *model) { m.Selector = []byte{0, 0, 0, 0} })
		for _, name := range []string{"submit_logic_call", "update_valset", "deploy_contract", "compass_update_batch", "submit_batch"} {
			if name == methodOf[kind] {
				continue
			}
			id := e.abi.Methods[name].ID
			add("selector:="+name, func(m *model) { m.Selector = append([]byte(nil), id...) })
		}
		n := len(rm.Cons.Valset.Validators)
		vsLeaves("consensus.valset", func(m *model) *valsetT { return &m.Cons.Valset }, n, true)
		add("consensus.valset.valset_id:=new-snapshot", func(m *model) { m.Cons.Valset.ValsetId = new(big.Int).SetUint64(e.s.snapNew) })
		for i := range rm.Cons.Signatures {
			i := i
			sg := func(m *model) *sigT { return &m.Cons.Signatures[i] }
			add(fmt.Sprintf("consensus.sig[%d].v:27<->28", i), func(m *model) { s := sg(m); s.V = big.NewInt(55 - s.V.Int64()) })
			add(fmt.Sprintf("consensus.sig[%d].v:raw(0/1)", i), func(m *model) { s := sg(m); s.V = addInt(s.V, -27) })
			add(fmt.Sprintf("consensus.sig[%d].r+1", i), func(m *model) { s := sg(m); s.R = addInt(s.R, 1) })
			add(fmt.Sprintf("consensus.sig[%d].r-1", i), func(m *model) { s := sg(m); s.R = addInt(s.R, -1) })
			add(fmt.Sprintf("consensus.sig[%d].s+1", i), func(m *model) { s := sg(m); s.S = addInt(s.S, 1) })
			add(fmt.Sprintf("consensus.sig[%d].s-1", i), func(m *model) { s := sg(m); s.S = addInt(s.S, -1) })
			add(fmt.Sprintf("consensus.sig[%d]:malleated(n-s,v')", i), func(m *model) {
				s := sg(m)
				s.S = new(big.Int).Sub(secpN, s.S)
				s.V = big.NewInt(55 - s.V.Int64())
			})
			add(fmt.Sprintf("consensus.sig[%d]:r<->s", i), func(m *model) { s := sg(m); s.R, s.S = s.S, s.R })
		}
		for i := 0; i+1 < len(rm.Cons.Signatures); i++ {
			i := i
			add(fmt.Sprintf("consensus.sigs.swap[%d]", i), func(m *model) { s := m.Cons.Signatures; s[i], s[i+1] = s[i+1], s[i] })
		}
		add("consensus.sigs.rotate", func(m *model) { s := m.Cons.Signatures; m.Cons.Signatures = append(s[1:], s[0]) })
		add("consensus.sigs.drop-last", func(m *model) { m.Cons.Signatures = m.Cons.Signatures[:len(m.Cons.Signatures)-1] })
		add("consensus.sigs.append-zero", func(m *model) {
			m.Cons.Signatures = append(m.Cons.Signatures, sigT{new(big.Int), new(big.Int), new(big.Int)})
		})
		add("consensus.sigs.append-copy-of-first", func(m *model) {
			s := m.Cons.Signatures[0]
			m.Cons.Signatures = append(m.Cons.Signatures, sigT{bi(s.V), bi(s.R), bi(s.S)})
		})
		relayerLeaves()
		numVS("consensus.valset", func(m *model) *valsetT { return &m.Cons.Valset }, n)
	}
	switch kind {
	case kSLC:
		add("args.logic_contract_address:flip-low", func(m *model) { m.Call.LogicContractAddress = flipAddr(m.Call.LogicContractAddress, 19) })
		add("args.logic_contract_address:flip-high", func(m *model) { m.Call.LogicContractAddress = flipAddr(m.Call.LogicContractAddress, 0) })
		add("args.logic_contract_address:=compass", func(m *model) { m.Call.LogicContractAddress = e.s.compassAddr })
		bytesLeaves("args.payload", func(m *model) *[]byte { return &m.Call.Payload })
		add("args.payload:truncate-32(sender-suffix)", func(m *model) { m.Call.Payload = m.Call.Payload[:len(m.Call.Payload)-32] })
		feeLeaves()
		intLeaves("message_id", func(m *model) **big.Int { return &m.MsgID })
		add("message_id:=twin", func(m *model) { m.MsgID = new(big.Int).SetUint64(t.Twin) })
		intLeaves("deadline", func(m *model) **big.Int { return &m.Deadline })
		add("message_id<->deadline", func(m *model) { m.MsgID, m.Deadline = m.Deadline, m.MsgID })
		numFees()
		numLeaves("message_id", func(m *model) **big.Int { return &m.MsgID })
		numLeaves("deadline", func(m *model) **big.Int { return &m.Deadline })
	case kValset:
		vsLeaves("new_valset", func(m *model) *valsetT { return &m.NewVS }, len(rm.NewVS.Validators), false)
		add("new_valset:=consensus.valset", func(m *model) { m.NewVS = m.Cons.Valset.clone() })
		intLeaves("gas_estimate", func(m *model) **big.Int { return &m.Gas })
		numLeaves("gas_estimate", func(m *model) **big.Int { return &m.Gas })
		numVS("new_valset", func(m *model) *valsetT { return &m.NewVS }, len(rm.NewVS.Validators))
	case kUSC:
		add("deployer:flip-low", func(m *model) { m.Deployer = flipAddr(m.Deployer, 19) })
		add("deployer:flip-high", func(m *model) { m.Deployer = flipAddr(m.Deployer, 0) })
		bytesLeaves("bytecode", func(m *model) *[]byte { return &m.Bytecode })
		feeLeaves()
		intLeaves("message_id", func(m *model) **big.Int { return &m.MsgID })
		intLeaves("deadline", func(m *model) **big.Int { return &m.Deadline })
		add("message_id<->deadline", func(m *model) { m.MsgID, m.Deadline = m.Deadline, m.MsgID })
		numFees()
		numLeaves("message_id", func(m *model) **big.Int { return &m.MsgID })
		numLeaves("deadline", func(m *model) **big.Int { return &m.Deadline })
	case kHandover:
		for i := range rm.Fwd {
			i := i
			add(fmt.Sprintf("forward[%d].address:flip-low", i), func(m *model) { m.Fwd[i].LogicContractAddress = flipAddr(m.Fwd[i].LogicContractAddress, 19) })
			add(fmt.Sprintf("forward[%d].address:flip-high", i), func(m *model) { m.Fwd[i].LogicContractAddress = flipAddr(m.Fwd[i].LogicContractAddress, 0) })
			bytesLeaves(fmt.Sprintf("forward[%d].payload", i), func(m *model) *[]byte { return &m.Fwd[i].Payload })
		}
		if len(rm.Fwd) > 1 {
			add("forward.swap[0]", func(m *model) { m.Fwd[0], m.Fwd[1] = m.Fwd[1], m.Fwd[0] })
			add("forward.swap[0]:addresses-only", func(m *model) {
				m.Fwd[0].LogicContractAddress, m.Fwd[1].LogicContractAddress = m.Fwd[1].LogicContractAddress, m.Fwd[0].LogicContractAddress
			})
		}
		add("forward.drop-last", func(m *model) { m.Fwd = m.Fwd[:len(m.Fwd)-1] })
		add("forward.drop-first", func(m *model) { m.Fwd = m.Fwd[1:] })
		add("forward.duplicate-last", func(m *model) {
			l := m.Fwd[len(m.Fwd)-1]
			m.Fwd = append(m.Fwd, callT{l.LogicContractAddress, append([]byte(nil), l.Payload...)})
		})
		add("forward.empty", func(m *model) { m.Fwd = []callT{} })
		intLeaves("deadline", func(m *model) **big.Int { return &m.Deadline })
		intLeaves("gas_estimate", func(m *model) **big.Int { return &m.Gas })
		add("deadline<->gas_estimate", func(m *model) { m.Gas, m.Deadline = m.Deadline, m.Gas })
		numLeaves("deadline", func(m *model) **big.Int { return &m.Deadline })
		numLeaves("gas_estimate", func(m *model) **big.Int { return &m.Gas })
	case kUpload:
		bytesLeaves("bytecode", func(m *model) *[]byte { return &m.Bytecode })
		add("ctor.compass_id:flip-first", func(m *model) { m.Unique[0] ^= 0x80 })
		add("ctor.compass_id:flip-last", func(m *model) { m.Unique[31] ^= 1 })
		add("ctor.event_id+1", func(m *model) { m.EventID = addInt(m.EventID, 1) })
		add("ctor.gravity_nonce+1", func(m *model) { m.GravNo = addInt(m.GravNo, 1) })
		vsLeaves("ctor.valset", func(m *model) *valsetT { return &m.NewVS }, len(rm.NewVS.Validators), false)
		numVS("ctor.valset", func(m *model) *valsetT { return &m.NewVS }, len(rm.NewVS.Validators))
		add("ctor.fee_manager:flip-low", func(m *model) { m.FeeMgr = flipAddr(m.FeeMgr, 19) })
		add("ctor.fee_manager:flip-high", func(m *model) { m.FeeMgr = flipAddr(m.FeeMgr, 0) })
		add("ctor.absent", func(m *model) {
			n := len(m.Bytecode)
			m.Post = append(m.Post, func(b []byte) []byte { return b[:n] })
		})
	}
	post("trailing:append-00", func(b []byte) []byte { return append(append([]byte(nil), b...), 0) })
	post("trailing:append-32-zero-bytes", func(b []byte) []byte { return append(append([]byte(nil), b...), make([]byte, 32)...) })
	post("trailing:append-own-prefix", func(b []byte) []byte { return append(append([]byte(nil), b...), b[:4]...) })
	post("trailing:truncate-1", func(b []byte) []byte { return append([]byte(nil), b[:len(b)-1]...) })
	post("trailing:truncate-32", func(b []byte) []byte { return append([]byte(nil), b[:len(b)-32]...) })
	post("input:empty", func(b []byte) []byte { return []byte{} })
	if kind != kUpload {
		post("input:selector-only", func(b []byte) []byte { return append([]byte(nil), b[:4]...) })
	}
	// every 32-byte word of the reference input: highest and lowest bit
	off := 4
	if kind == kUpload {
		off = 0
	}
	for w := 0; off+32*w < len(ref0); w++ {
		lo, hi := off+32*w, off+32*w+31
		if hi >= len(ref0) {
			hi = len(ref0) - 1
		}
		for _, pos := range []struct {
			n string
			i int
			b byte
		}{{"hi", lo, 0x80}, {"lo", hi, 1}} {
			pos := pos
			out = append(out, corr{Label: fmt.Sprintf("word[%d].%s", w, pos.n), Word: true, Apply: func(m *model) {
				m.Post = append(m.Post, func(b []byte) []byte {
					if pos.i >= len(b) {
						return b
					}
					n := append([]byte(nil), b...)
					n[pos.i] ^= pos.b
					return n
				})
			}})
		}
	}
	return out
}

var reIdx = regexp.MustCompile(`\[\d+\]`)

// classOf reduces a menu label to the leaf it touches (no indices, no value).
func classOf(label string) string {
	l := reIdx.ReplaceAllString(label, "[]")
	if i := strings.Index(l, ":"); i >= 0 {
		l = l[:i]
	}
	l = strings.TrimSuffix(strings.TrimSuffix(l, "+1"), "-1")
	if strings.HasPrefix(l, "word[]") {
		l = "word"
	}
	return l
}

// ---------------------------------------------------------------------------
// cases

type caseT struct {
	Kind string
	Corr []int  // indices into the kind's menu
	Sigs int    // bit mask over the collected signatures (collection order); -1 = all
	Ev   string // receipt variant
	Tx   string // transaction envelope variant
	Ord  int    // scenario variant (index into variants; 0 = default): collection order / extreme values
}

// tgt is the message the case offers proofs for (the kind's target in the base
// state whose signatures were collected in the case's order).
func (e *env) tgt(c caseT) *target {
	if c.Ord == 0 {
		return e.s.tg[c.Kind]
	}
	return e.s.alt[c.Ord][c.Kind]
}

func (e *env) refsOf(c caseT) map[string]int {
	if c.Ord == 0 {
		return e.refs[c.Kind]
	}
	return e.refsOrd[c.Ord][c.Kind]
}

func (c caseT) key(e *env) string {
	var ls []string
	for _, i := range c.Corr {
		ls = append(ls, e.menus[c.Kind][i].Label)
	}
	k := fmt.Sprintf("%s|%s|sigs=%d|%s|%s", c.Kind, strings.Join(ls, " & "), c.Sigs, c.Ev, c.Tx)
	if c.Ord > 0 {
		k += "|" + variants[c.Ord].Name
	}
	return k
}

type env struct {
	s      *scenario
	r      *report.Run
	abi    *abi.ABI
	menus  map[string][]corr
	refs   map[string]map[string]int // kind -> reference input -> signature prefix length
	ctl    map[string]*snap          // per base: state after an end-block without evidence
	stats  map[string]int
	replay string
	dl     time.Time
	capped bool

	twRefs     map[string]map[string]int
	refsOrd    map[int]map[string]map[string]int // collection order -> kind -> reference inputs
	seqSamples []string
}

// snap is what the oracle looks at.
type snap struct {
	Evm      map[string]string // evm store without the processed-transaction set
	TxProc   int
	Digest   map[string]string // other stores
	Queue    map[uint64]string
	OnChain  uint64
	ChainsOf map[uint64]int // snapshot id -> how often the chain is listed
}

var otherStores = []string{"valset", "treasury", "skyway", "scheduler", "bank"}

func (e *env) snapshot(ctx sdk.Context) *snap {
	w := e.s.w
	sn := &snap{Evm: map[string]string{}, Digest: map[string]string{}, Queue: map[uint64]string{}, ChainsOf: map[uint64]int{}}
	tp := hex.EncodeToString([]byte("tx-processed"))
	for k, v := range w.StoreDump(ctx, "evm", nil) {
		if strings.HasPrefix(k, tp) {
			sn.TxProc++
			continue
		}
		sn.Evm[k] = v
	}
	for _, st := range otherStores {
		sn.Digest[st] = w.StoreDigest(ctx, st)
	}
	for _, m := range w.Queue(ctx, e.s.queue) {
		b, err := w.App.AppCodec().MarshalInterface(m)
		must(err)
		sn.Queue[m.GetId()] = string(b)
	}
	if s, err := w.App.ValsetKeeper.GetLatestSnapshotOnChain(ctx, ref); err == nil {
		sn.OnChain = s.GetId()
	}
	for _, id := range []uint64{e.s.snapOnChain, e.s.snapNew} {
		if s, err := w.App.ValsetKeeper.FindSnapshotByID(ctx, id); err == nil {
			for _, c := range s.Chains {
				if c == ref {
					sn.ChainsOf[id]++
				}
			}
		}
	}
	return sn
}

// effect reports whether the success effect of the kind's message is present.
func (e *env) effect(ctx sdk.Context, kind string) (bool, string) {
	w := e.s.w
	switch kind {
	case kValset:
		s, err := w.App.ValsetKeeper.GetLatestSnapshotOnChain(ctx, ref)
		if err != nil {
			return false, err.Error()
		}
		return s.GetId() == e.s.snapNew, fmt.Sprintf("snapshot live on chain = %d", s.GetId())
	case kUpload:
		deps, err := w.App.EvmKeeper.AllSmartContractsDeployments(ctx)
		must(err)
		for _, d := range deps {
			if d.ChainReferenceID == ref && d.SmartContractID == 2 {
				return d.Status != evmtypes.SmartContractDeployment_IN_FLIGHT || d.NewSmartContractAddress != "",
					fmt.Sprintf("deployment status=%s addr=%s", d.Status, d.NewSmartContractAddress)
			}
		}
		ci, err := w.App.EvmKeeper.GetChainInfo(ctx, ref)
		must(err)
		return true, fmt.Sprintf("deployment record gone, active contract id %d", ci.ActiveSmartContractID)
	case kUSC:
		cs, err := w.App.EvmKeeper.UserSmartContracts(ctx, e.s.userOwner.String())
		must(err)
		for _, c := range cs {
			for _, d := range c.Deployments {
				if d.Status == evmtypes.UserSmartContract_Deployment_ACTIVE || d.Address != "" {
					return true, fmt.Sprintf("user deployment status=%s addr=%s", d.Status, d.Address)
				}
			}
		}
		return false, "user deployment in flight"
	case kHandover:
		ci, err := w.App.EvmKeeper.GetChainInfo(ctx, ref)
		must(err)
		return ci.ActiveSmartContractID == 2 || !strings.EqualFold(ci.SmartContractAddr, world.CompassAddr),
			fmt.Sprintf("active contract id=%d addr=%s", ci.ActiveSmartContractID, ci.SmartContractAddr)
	}
	return false, ""
}

func (e *env) subset(t *target, mask int) []*ctypes.SignData {
	if mask < 0 {
		return t.Sigs
	}
	var out []*ctypes.SignData
	for i, s := range t.Sigs {
		if mask&(1<<i) != 0 {
			out = append(out, s)
		}
	}
	return out
}

var errInapplicable = fmt.Errorf("inapplicable combination")

func tryApply(c corr, m *model) (ok bool) {
	defer func() {
		if r := recover(); r != nil {
			ok = false
		}
	}()
	c.Apply(m)
	return true
}

// input packs the transaction input of a case and says whether it is one of the
// reference encodings.
func (e *env) input(c caseT) ([]byte, bool, error) {
	t := e.tgt(c)
	m := e.s.reference(e.s.bases[t.Base], t, e.subset(t, c.Sigs))
	for _, i := range c.Corr {
		if !tryApply(e.menus[c.Kind][i], m) {
			// the leaf no longer exists after the first corruption (e.g. a
			// dropped validator): the pair is not expressible
			return nil, false, errInapplicable
		}
	}
	data, err := m.pack(e.abi)
	if err != nil {
		return nil, false, err
	}
	_, ok := e.refsOf(c)[string(data)]
	return data, ok, nil
}

const uploadNonce = 7

func (e *env) proof(c caseT, data []byte) (*evmtypes.TxExecutedProof, *ethtypes.Transaction) {
	t := e.tgt(c)
	rel := e.s.valByEth(t.Msg.AssigneeRemoteAddress)
	o := txOpts{To: &e.s.compassAddr, Nonce: 41, ChainID: e.s.chainID, Signer: rel}
	if c.Kind == kUpload {
		o.To, o.Nonce = nil, uploadNonce
	}
	switch c.Tx {
	case "":
	case "to=other-contract":
		a := ethcommon.HexToAddress("0x00000000000000000000000000000000000000a7")
		o.To = &a
	case "chain-id=other":
		o.ChainID = 5
	case "env=legacy", "env=access-list", "env=dynamic-fee", "env=blob", "env=blob-with-sidecar":
		o.Env = strings.TrimPrefix(c.Tx, "env=")
	case "sender=not-the-relayer":
		for _, v := range e.s.w.Vals {
			if v != rel {
				o.Signer = v
				break
			}
		}
	case "nonce+1":
		o.Nonce++
	default:
		panic("tx variant " + c.Tx)
	}
	tx := buildTx(data, o)
	raw, err := tx.MarshalBinary()
	must(err)
	p := &evmtypes.TxExecutedProof{SerializedTX: raw}
	child := ethcommon.HexToAddress("0x00000000000000000000000000000000c0de0001")
	dlog := func() *ethtypes.Log {
		return deployedLog(e.abi, e.s.compassAddr, child, ethcommon.HexToAddress(deployerA), 9)
	}
	var logs []*ethtypes.Log
	if c.Kind == kUSC {
		logs = []*ethtypes.Log{{Address: e.s.compassAddr, Topics: []ethcommon.Hash{ethcrypto.Keccak256Hash([]byte("Other(uint256)"))}, Data: []byte{1}}, dlog()}
	}
	switch c.Ev {
	case "status=1":
		p.SerializedReceipt = buildReceipt(tx, rcptOpts{Status: 1, Logs: logs})
	case "status=0":
		p.SerializedReceipt = buildReceipt(tx, rcptOpts{Status: 0, Logs: logs})
	case "status=0,no-logs":
		p.SerializedReceipt = buildReceipt(tx, rcptOpts{Status: 0})
	case "receipt-absent":
	case "receipt-garbage":
		p.SerializedReceipt = []byte{0xc1, 0x80}
	case "status=1,no-deployed-event":
		p.SerializedReceipt = buildReceipt(tx, rcptOpts{Status: 1, Logs: logs[:1]})
	case "status=1,no-logs":
		p.SerializedReceipt = buildReceipt(tx, rcptOpts{Status: 1})
	case "status=1,log-without-topics":
		p.SerializedReceipt = buildReceipt(tx, rcptOpts{Status: 1, Logs: []*ethtypes.Log{{Address: e.s.compassAddr, Data: []byte{1}}, dlog()}})
	default:
		panic("receipt variant " + c.Ev)
	}
	return p, tx
}

type outcome struct {
	EvErr    string
	Hits     []string
	Removed  bool
	Accepted bool // removed and the attestation loop reported no error
	Effect   bool
	Detail   string
	After    *snap
}

// offer delivers the proof as evidence of all validators for message id.
func (e *env) offer(ctx sdk.Context, id uint64, p *evmtypes.TxExecutedProof) string {
	w := e.s.w
	var errs []string
	for _, v := range w.Vals {
		if r := w.DeliverTx(ctx, []*world.Actor{v.Actor}, world.Evidence(v, e.s.queue, id, p)); !r.OK() {
			errs = append(errs, fmt.Sprintf("%s: %s: %v", v.Name, r.Stage, r.Err))
		}
	}
	return strings.Join(errs, "; ")
}

func (e *env) endBlock(ctx sdk.Context) []string {
	e.s.cap.Reset()
	if err := e.s.w.EndBlock(ctx); err != nil {
		return []string{"end-block error: " + err.Error()}
	}
	return append([]string(nil), *e.s.cap.Hits...)
}

func (e *env) queued(ctx sdk.Context, id uint64) bool {
	for _, m := range e.s.w.Queue(ctx, e.s.queue) {
		if m.GetId() == id {
			return true
		}
	}
	return false
}

func rejectClass(hits []string) string {
	if len(hits) == 0 {
		return "none"
	}
	h := strings.ToLower(hits[0])
	switch {
	case strings.Contains(h, "already processed"):
		return "already-processed(unflushed)"
	case strings.Contains(h, "transaction not verified"):
		return "not-verified(flushed)"
	case strings.Contains(h, "transaction failed to execute"):
		return "tx-failed(flushed)"
	default:
		return "other-error(unflushed)"
	}
}

func (e *env) control(base string) *snap {
	if c, ok := e.ctl[base]; ok {
		return c
	}
	ctx := world.Fork(e.s.bases[base])
	if h := e.endBlock(ctx); len(h) > 0 {
		panic("control end-block logged: " + h[0])
	}
	c := e.snapshot(ctx)
	e.ctl[base] = c
	return c
}

func diffMaps(a, b map[string]string) []string { return world.DiffDumps(a, b) }

// runCase executes one single-block case and judges it.
func (e *env) runCase(c caseT) {
	key := c.key(e)
	if e.replay != "" && key != e.replay {
		return
	}
	if !e.capped && time.Now().After(e.dl) {
		e.capped = true
		e.r.Cap("internal deadline reached before the enumeration finished")
	}
	if e.capped {
		return
	}
	t := e.tgt(c)
	data, isRef, err := e.input(c)
	if err != nil {
		// the corrupted tree cannot be ABI-encoded at all (e.g. negative uint): nothing to offer
		if err == errInapplicable {
			e.stats["inapplicable-pair"]++
		} else {
			e.stats["unpackable"]++
		}
		return
	}
	info := c.Tx == "to=other-contract" || c.Tx == "chain-id=other" || c.Tx == "sender=not-the-relayer"
	expect := isRef && (c.Ev == "status=1" || (c.Kind != kUSC && c.Ev == "status=1,no-logs"))
	p, tx := e.proof(c, data)
	ctx := world.Fork(e.s.bases[t.Base])
	o := outcome{}
	o.EvErr = e.offer(ctx, t.ID, p)
	o.Hits = e.endBlock(ctx)
	o.Removed = !e.queued(ctx, t.ID)
	o.Accepted = o.Removed && len(o.Hits) == 0
	o.Effect, o.Detail = e.effect(ctx, c.Kind)
	if c.Kind == kSLC {
		o.Effect, o.Detail = o.Accepted, "no store-level success effect; accepted = removed without attestation error"
	}
	o.After = e.snapshot(ctx)
	ctl := e.control(t.Base)
	e.r.Case(key)
	e.stats["cases:"+c.Kind]++
	rc := rejectClass(o.Hits)
	if o.Accepted {
		rc = "accepted"
	}
	e.stats["outcome:"+c.Kind+":"+rc]++
	rep := map[string]interface{}{"case": key}
	describe := func() string {
		h := ""
		if len(o.Hits) > 0 {
			h = o.Hits[0]
		}
		return fmt.Sprintf("case %s\n tx %s input %d bytes (reference encoding: %v)\n evidence txs: %q\n attestation log: %q\n message removed=%v effect=%v (%s)", key, tx.Hash().Hex(), len(data), isRef, o.EvErr, h, o.Removed, o.Effect, o.Detail)
	}
	if o.EvErr != "" {
		e.r.Violate("harness:evidence-tx-refused", describe(), rep)
		return
	}
	cls := "reference"
	if len(c.Corr) > 0 {
		var cs []string
		for _, i := range c.Corr {
			cs = append(cs, classOf(e.menus[c.Kind][i].Label))
		}
		cls = strings.Join(cs, "+")
	} else if c.Sigs >= 0 && !isRef {
		cls = "signature-subset-not-a-prefix-of-the-collected"
	}
	if c.Ev != "status=1" {
		cls += "," + c.Ev
	}
	if info {
		// envelope variants the property text does not speak about: measured only
		e.stats[fmt.Sprintf("info:%s:%s:accepted=%v", c.Kind, c.Tx, o.Effect)]++
		return
	}
	if len(e.r.Samples) < 6 && (len(c.Corr) == 0 || e.stats["cases:"+c.Kind]%97 == 0) {
		e.r.Sample(map[string]interface{}{"case": key, "reference_encoding": isRef, "expected_accept": expect, "accepted": o.Accepted, "effect": o.Effect, "attestation": rc, "input_bytes": len(data)})
	}
	evmDiff := diffMaps(ctl.Evm, o.After.Evm)
	var otherDiff []string
	for _, st := range otherStores {
		if ctl.Digest[st] != o.After.Digest[st] {
			otherDiff = append(otherDiff, st)
		}
	}
	var queueDiff []string
	for id, b := range ctl.Queue {
		if id == t.ID {
			continue
		}
		if nb, ok := o.After.Queue[id]; !ok {
			queueDiff = append(queueDiff, fmt.Sprintf("-%d", id))
		} else if nb != b {
			queueDiff = append(queueDiff, fmt.Sprintf("~%d", id))
		}
	}
	sort.Strings(queueDiff)
	if expect {
		if !o.Effect || !o.Accepted {
			sig := "reject-valid:" + c.Kind
			if n := e.refsOf(c)[string(data)]; c.Kind != kUpload && n < len(t.Sigs) {
				sig += ":late-signature-prefix-of-the-collected"
			}
			e.r.Violate(sig, "the reference transaction was not accepted\n"+describe(), rep)
			return
		}
		e.stats["accepted-valid:"+c.Kind]++
		e.checkValidEffects(c, ctl, o, rep, describe)
		return
	}
	// must be refused without any success effect
	if o.Effect || o.Accepted {
		e.r.Violate("accept-invalid:"+c.Kind+":"+cls, "a transaction that is not a successful delivery of this message produced its success effect\n"+describe(), rep)
		return
	}
	if len(evmDiff) > 0 {
		e.r.Violate("side-effect-on-reject:"+c.Kind+":evm", fmt.Sprintf("evm store differs from the run without evidence in keys %v\n%s", evmDiff, describe()), rep)
		return
	}
	if len(otherDiff) > 0 {
		e.r.Violate("side-effect-on-reject:"+c.Kind+":"+strings.Join(otherDiff, ","), fmt.Sprintf("stores %v differ from the run without evidence\n%s", otherDiff, describe()), rep)
		return
	}
	if len(queueDiff) > 0 {
		e.r.Violate("side-effect-on-reject:"+c.Kind+":other-messages", fmt.Sprintf("other queued messages changed: %v\n%s", queueDiff, describe()), rep)
		return
	}
	if o.Removed {
		e.stats["rejected:removed:"+c.Kind]++
	} else {
		e.stats["rejected:left-queued-with-evidence:"+c.Kind]++
	}
	if ms := e.metrixRecord(ctx, t); ms != "" {
		e.stats["metrix-record-on-rejected:"+ms]++
	}
}

// metrixRecord tells whether the relayer's history got a record for the target
// message ("success"/"failure"), "" if none.
func (e *env) metrixRecord(ctx sdk.Context, t *target) string {
	va, err := sdk.ValAddressFromBech32(t.Msg.Assignee)
	must(err)
	h, err := e.s.w.App.MetrixKeeper.GetValidatorHistory(ctx, va)
	if err != nil || h == nil {
		return ""
	}
	for _, r := range h.Records {
		if r.MessageId == t.ID {
			if r.Success {
				return "success"
			}
			return "failure"
		}
	}
	return ""
}

// checkValidEffects checks, for an accepted reference transaction, that the
// effects are the ones of this message only.
func (e *env) checkValidEffects(c caseT, ctl *snap, o outcome, rep interface{}, describe func() string) {
	t := e.tgt(c)
	// other kinds' effects must not appear
	var queueDiff []string
	for id := range ctl.Queue {
		if id == t.ID {
			continue
		}
		if _, ok := o.After.Queue[id]; !ok {
			queueDiff = append(queueDiff, fmt.Sprintf("-%d", id))
		}
	}
	if len(queueDiff) > 0 {
		e.r.Violate("valid-removes-other-messages:"+c.Kind, fmt.Sprintf("other messages disappeared: %v\n%s", queueDiff, describe()), rep)
	}
	evmDiff := diffMaps(ctl.Evm, o.After.Evm)
	switch c.Kind {
	case kSLC, kValset:
		if len(evmDiff) > 0 {
			e.r.Violate("valid-unexpected-effect:"+c.Kind+":evm", fmt.Sprintf("evm store keys changed: %v\n%s", evmDiff, describe()), rep)
		}
	}
	if c.Kind != kValset && c.Kind != kUpload && o.After.Digest["valset"] != ctl.Digest["valset"] {
		e.r.Violate("valid-unexpected-effect:"+c.Kind+":valset", "valset store changed\n"+describe(), rep)
	}
	if c.Kind == kValset && o.After.ChainsOf[e.s.snapNew] != 1 {
		e.r.Violate("valid-effect-count:"+c.Kind, fmt.Sprintf("chain listed %d times in the new snapshot\n%s", o.After.ChainsOf[e.s.snapNew], describe()), rep)
	}
	for _, st := range []string{"treasury", "skyway", "scheduler", "bank"} {
		if st == "skyway" && c.Kind == kHandover {
			continue // activation of the new compass re-keys the bridge module (EVMActivatedChain subscriber)
		}
		if o.After.Digest[st] != ctl.Digest[st] {
			e.r.Violate("valid-unexpected-effect:"+c.Kind+":"+st, st+" store changed\n"+describe(), rep)
		}
	}
}

// ---------------------------------------------------------------------------

func run(r *report.Run, shard, nshards int, replayFile string) {
	s := newScenario()
	a, err := abi.JSON(strings.NewReader(world.CompassABI()))
	must(err)
	e := &env{s: s, r: r, abi: &a, menus: map[string][]corr{}, refs: map[string]map[string]int{}, ctl: map[string]*snap{}, stats: map[string]int{}, twRefs: map[string]map[string]int{}, refsOrd: map[int]map[string]map[string]int{}}
	e.dl = r.Deadline(150*time.Second, 25*time.Minute)
	if replayFile != "" {
		var v report.Violation
		b, err := os.ReadFile(replayFile)
		if err == nil {
			err = json.Unmarshal(b, &v)
		}
		if err != nil {
			fmt.Fprintln(os.Stderr, err)
			os.Exit(2)
		}
		e.replay, _ = v.Replay.(map[string]interface{})["case"].(string)
		if e.replay == "" {
			fmt.Fprintln(os.Stderr, "replay file has no case key")
			os.Exit(2)
		}
	}
	r.Rule = "per action type (SubmitLogicCall, UpdateValset, UploadSmartContract, UploadUserSmartContract, CompassHandover; each queued through the real path with elected gas estimate, fees, three signatures, public access data): the reference transaction; every single corruption of the menu (named leaves of the argument tree: selector, consensus valset id / validators / powers / order, every signature component and signature order, relayer, fees, fee payer, ids, deadlines, gas estimate, addresses, payload/bytecode flip-truncate-extend, forward calls, constructor arguments, trailing bytes; plus highest and lowest bit of every 32-byte word of the packed input) with receipt status 1 and 0; all unordered pairs of menu entries (thorough); every subset of the collected signatures (prefixes and non-prefixes of the COLLECTION order) for each of the 6 orders in which three validators can sign (default = valset order, reversed, rotated, ...), singles on every proper prefix of the default, reversed and rotated collection (consensus leaves in quick, all named leaves in thorough); receipt variants {1, 0, absent, undecodable, success without the deployment event}; transaction envelope alphabet {legacy, access-list, dynamic-fee, blob canonical, blob network form with sidecar} x receipt {1,0} per type; extreme numeric values reached through the real paths (all validators estimate 2^63-1 / 2^63 / 2^64-1 gas, governance fee rates 1.0/1.0, 1.9/0.5, 0.5/0.5 => gas_estimate word resp. fee words at and above 2^63) with the reference transaction and per numeric word +-1, sign-extended from 64 bits, truncated to 63 bits, bits 63 / 64 / 255 flipped (all named leaves in thorough); re-use sequences (same tx for the content-identical twin in the same / next block, twin first, evidence for an attested message) and the replay product: message attested with the transaction in envelope e1, the same reference input offered for the twin in envelope e2, all 25 pairs (9 for the contract creation), must be refused whenever the transaction hash is the same (e1 == e2, or the two encodings of the blob transaction); replay at a distance: the transaction that attested a message is offered 1 / 301 / 601 / 10 000 blocks later (world.Advance on the fork) for the twin that waited in the queue and for a twin re-published after the gap (same content cloned into the queue, estimated, signed and published again; its reference input is checked to be byte-identical) - refusal required at every distance; two deployments of the same user contract in flight on the same chain (requested at heights h and h+3, both messages estimated / signed / published): attested only-older, only-younger, older-then-younger, younger-then-older, both in one block - after each end-block the deployment records must equal the pre-state with exactly the attested message's own record (by creation height) ACTIVE at the address of that message's receipt. Each case = 3 real MsgAddEvidence txs + the application's end-block on a fork; distinct = distinct cases"
	r.Assumptions = []string{
		"accepted = the message left the queue and the end-block's attestation loop logged no error; for SubmitLogicCall this is the only success observable (the attester changes no store besides queue, processed-tx set and relay metrics), for the other types the store-level success effect (snapshot live on chain / deployment advanced / user deployment active / contract activated) is checked as well",
		"weaker reading: on a refused proof the message may be removed (not verified, failed receipt) or stay queued (attester error); the processed-transaction mark and the relayer's metrix history record are counted as bookkeeping, not as success effects (the record carries success=true for every TxExecutedProof, measured in coverage.metrix_record_on_rejected)",
		"a reference transaction with a successful receipt that lacks the ContractDeployed event is expected to be refused for UploadUserSmartContract (no address to record)",
		"transaction envelope variants the statement does not mention (other `to` address, other chain id, sender other than the relayer) are measured (coverage.envelope) and not judged; every envelope of the alphabet and another nonce must be accepted",
		"'prefix of the collected signatures' is read in collection order (the order of the messages' SignData, i.e. of the MsgAddMessagesSignatures transactions), not in valset order; the signatures are collected in all 6 orders of the three validators",
		"extreme values: only the gas estimate (elected from validators' MsgAddMessageGasEstimates) and the fees derived from it are settable through real transactions; message ids, deadlines, valset ids and powers cannot be driven to 2^63 by any real path and only get the numeric-word corruptions; the harness' encoder packs every number as unsigned 256-bit",
		"replay product: a transaction with another hash (another envelope type) offered for the twin after the first attestation is not required to be accepted (the twin's own preconditions may be gone); only acceptance of an already used hash is a violation (replay:accepted-twice:<e1>+<e2>)",
		"validator set of the consensus argument = snapshot named in the message's public access data (valset live on the target chain), powers floor(2^32*share/total); three validators with shares 3:2:1",
		"'used transaction' = a transaction hash that was the winning evidence of an earlier end-block whose attestation result was committed",
	}
	// reference encodings and menus
	for _, k := range kinds {
		if k == kHandover {
			continue
		}
		e.prepare(k)
	}
	// handover base needs the accepted upload
	up := caseT{Kind: kUpload, Sigs: -1, Ev: "status=1"}
	data, _, err := e.input(up)
	must(err)
	pr, tx := e.proof(up, data)
	from, err := ethtypes.Sender(ethtypes.NewLondonSigner(big.NewInt(s.chainID)), tx)
	must(err)
	s.newCompass = ethcrypto.CreateAddress(from, uploadNonce)
	if err := s.buildHandoverBase(pr); err != nil {
		r.Violate("reject-valid:"+kUpload, "cannot reach CompassHandover: "+err.Error(), map[string]interface{}{"case": up.key(e)})
		return
	}
	e.prepare(kHandover)
	// the scheduled handover carries what the harness expects
	ht := s.tg[kHandover]
	want := handoverForwardCalls(s.newCompass, []string{erc20Addr}, feeMgrA)
	got := s.reference(s.bases["H"], ht, ht.Sigs).Fwd
	same := len(want) == len(got)
	for i := 0; same && i < len(want); i++ {
		same = want[i].LogicContractAddress == got[i].LogicContractAddress && bytes.Equal(want[i].Payload, got[i].Payload)
	}
	if !same {
		r.Violate("handover-content", fmt.Sprintf("scheduled handover forward calls %v, expected %v", got, want), nil)
	}
	if os.Getenv("VERIF_C07_DEBUG") != "" && shard == 0 {
		fmt.Fprintf(os.Stderr, "base B:\n%sbase H:\n%s", s.describe(s.bases["B"]), s.describe(s.bases["H"]))
		for _, k := range kinds {
			fmt.Fprintf(os.Stderr, "%s: target %d twin %d menu %d refs %d\n", k, s.tg[k].ID, s.tg[k].Twin, len(e.menus[k]), len(e.refs[k]))
		}
	}

	cases := e.enumerate()
	for i, c := range cases {
		if i%nshards != shard {
			continue
		}
		e.runCase(c)
	}
	seqs := e.sequences()
	for i, q := range seqs {
		if i%nshards != shard {
			continue
		}
		e.runSeq(q)
	}
	for i, d := range e.distances() {
		if i%nshards != (shard+1)%nshards {
			continue
		}
		e.runDistance(d.Kind, d.Dist, d.Fresh)
	}
	for i := range userPairPlans {
		if i%nshards != (shard+2)%nshards {
			continue
		}
		e.runUserPair(i)
	}
	if e.replay == "" {
		e.liveness(shard, nshards)
	}
	for _, k := range sortedKeys(e.stats) {
		r.Extra["n:"+k] = float64(e.stats[k])
	}
	if len(e.seqSamples) > 0 && shard == 0 {
		r.Extra["sequence_samples"] = e.seqSamples
	}
	if shard == 0 {
		for _, k := range kinds {
			r.Extra["menu:"+k] = len(e.menus[k])
			r.Extra["input_bytes:"+k] = e.refLen(k)
		}
	}
}

func (e *env) refLen(k string) int {
	for d := range e.refs[k] {
		return len(d)
	}
	return 0
}

// prepare computes the reference encodings (one per non-empty signature
// prefix) and the corruption menu of a kind.
func (e *env) prepare(k string) {
	t := e.s.tg[k]
	base := e.s.bases[t.Base]
	e.refs[k] = map[string]int{}
	if k == kUpload {
		d, err := e.s.reference(base, t, nil).pack(e.abi)
		must(err)
		e.refs[k][string(d)] = 0
	} else {
		if len(t.Sigs) != len(e.s.w.Vals) {
			panic(fmt.Sprintf("%s: %d signatures collected", k, len(t.Sigs)))
		}
		for n := 1; n <= len(t.Sigs); n++ {
			d, err := e.s.reference(base, t, t.Sigs[:n]).pack(e.abi)
			must(err)
			e.refs[k][string(d)] = n
		}
		if len(e.refs[k]) != len(t.Sigs) {
			panic("signature prefixes do not give distinct encodings")
		}
	}
	e.menus[k] = e.menu(k)
	if k == kUpload {
		return
	}
	for oi := 1; oi < len(variants); oi++ {
		at := e.s.alt[oi][k]
		if at == nil || at.ID != t.ID || len(at.Sigs) != len(t.Sigs) {
			panic(fmt.Sprintf("%s: no target for variant %s", k, variants[oi].Name))
		}
		for i, sd := range at.Sigs {
			if want := e.s.w.Vals[variants[oi].Order[i]]; !strings.EqualFold(sd.ExternalAccountAddress, want.EthAddr()) {
				panic(fmt.Sprintf("%s: collection order of variant %s not realised", k, variants[oi].Name))
			}
		}
		if x := variants[oi].Est; x != 0 {
			// the extreme value did reach the message through the real path
			got := at.Gas
			if f := feesOf(at.Msg); f != nil {
				got = f.RelayerFee
			}
			if got != x {
				panic(fmt.Sprintf("%s: variant %s: elected estimate / relayer fee is %d", k, variants[oi].Name, got))
			}
		}
		if e.refsOrd[oi] == nil {
			e.refsOrd[oi] = map[string]map[string]int{}
		}
		r := map[string]int{}
		for n := 1; n <= len(at.Sigs); n++ {
			d, err := e.s.reference(e.s.bases[at.Base], at, at.Sigs[:n]).pack(e.abi)
			must(err)
			r[string(d)] = n
		}
		if len(r) != len(at.Sigs) {
			panic("signature prefixes do not give distinct encodings")
		}
		e.refsOrd[oi][k] = r
	}
}

func feesOf(m *evmtypes.Message) *evmtypes.Fees {
	if a := m.GetSubmitLogicCall(); a != nil {
		return a.Fees
	}
	if a := m.GetUploadUserSmartContract(); a != nil {
		return a.Fees
	}
	return nil
}

var envelopes = []string{"legacy", "access-list", "dynamic-fee", "blob", "blob-with-sidecar"}

func (e *env) enumerate() []caseT {
	var out []caseT
	thorough := e.r.Thorough()
	for _, k := range kinds {
		t := e.s.tg[k]
		n := len(e.menus[k])
		evs := []string{"status=1", "status=0", "status=0,no-logs", "receipt-absent", "receipt-garbage", "status=1,no-logs"}
		if k == kUSC {
			evs = append(evs, "status=1,no-deployed-event", "status=1,log-without-topics")
		}
		for _, ev := range evs {
			out = append(out, caseT{Kind: k, Sigs: -1, Ev: ev})
		}
		for _, tv := range []string{"to=other-contract", "chain-id=other", "sender=not-the-relayer", "nonce+1"} {
			out = append(out, caseT{Kind: k, Sigs: -1, Ev: "status=1", Tx: tv})
		}
		// transaction envelope alphabet (a contract creation cannot be a blob transaction)
		for _, env := range envelopes {
			if k == kUpload && strings.HasPrefix(env, "blob") {
				continue
			}
			for _, ev := range []string{"status=1", "status=0"} {
				out = append(out, caseT{Kind: k, Sigs: -1, Ev: ev, Tx: "env=" + env})
			}
		}
		// signature subsets
		if k != kUpload {
			for mask := 0; mask < 1<<len(t.Sigs); mask++ {
				for _, ev := range []string{"status=1", "status=0"} {
					out = append(out, caseT{Kind: k, Sigs: mask, Ev: ev})
				}
			}
		}
		// singles
		for i := 0; i < n; i++ {
			out = append(out, caseT{Kind: k, Corr: []int{i}, Sigs: -1, Ev: "status=1"})
			out = append(out, caseT{Kind: k, Corr: []int{i}, Sigs: -1, Ev: "status=0"})
			if !e.menus[k][i].Word || thorough {
				out = append(out, caseT{Kind: k, Corr: []int{i}, Sigs: -1, Ev: "receipt-absent"})
			}
		}
		if k != kUpload {
			// singles on the proper signature prefixes (late signatures)
			for p := 1; p < len(t.Sigs); p++ {
				for i := 0; i < n; i++ {
					if e.menus[k][i].Word && !thorough {
						continue
					}
					out = append(out, caseT{Kind: k, Corr: []int{i}, Sigs: 1<<p - 1, Ev: "status=1"})
				}
			}
		}
		if k != kUpload {
			// other signature collection orders: every subset of the collected
			// signatures; the oracle is the same (non-empty prefix of the collection)
			for oi := 1; oi < numOrders; oi++ {
				for mask := 0; mask < 1<<len(t.Sigs); mask++ {
					for _, ev := range []string{"status=1", "status=0"} {
						out = append(out, caseT{Kind: k, Sigs: mask, Ev: ev, Ord: oi})
					}
				}
				// singles on the proper prefixes of the reversed and the rotated collection
				if oi <= 2 {
					for p := 1; p < len(t.Sigs); p++ {
						for i := 0; i < n; i++ {
							if e.menus[k][i].Word || (!thorough && !strings.HasPrefix(e.menus[k][i].Label, "consensus.")) {
								continue
							}
							out = append(out, caseT{Kind: k, Corr: []int{i}, Sigs: 1<<p - 1, Ev: "status=1", Ord: oi})
						}
					}
				}
			}
		}
		if k != kUpload {
			// extreme numeric values (elected estimate / fees of 2^63-1, 2^63, 2^64-1):
			// the reference transaction and the single corruptions
			for oi := numOrders; oi < len(variants); oi++ {
				for _, ev := range []string{"status=1", "status=0"} {
					out = append(out, caseT{Kind: k, Sigs: -1, Ev: ev, Ord: oi})
				}
				for i := 0; i < n; i++ {
					c := e.menus[k][i]
					l := c.Label
					numeric := c.Num || strings.HasPrefix(l, "fee") || strings.HasPrefix(l, "gas_estimate") || strings.HasPrefix(l, "message_id") || strings.HasPrefix(l, "deadline")
					if c.Word && !thorough || !numeric && !thorough {
						continue
					}
					out = append(out, caseT{Kind: k, Corr: []int{i}, Sigs: -1, Ev: "status=1", Ord: oi})
				}
			}
		}
		if thorough {
			for i := 0; i < n; i++ {
				if e.menus[k][i].Num {
					continue
				}
				for j := i + 1; j < n; j++ {
					if e.menus[k][j].Num {
						continue
					}
					out = append(out, caseT{Kind: k, Corr: []int{i, j}, Sigs: -1, Ev: "status=1"})
				}
			}
		}
	}
	return out
}
