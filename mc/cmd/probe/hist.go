package main

import (
	"fmt"
	"os"

	abci "github.com/cometbft/cometbft/abci/types"
	sdkmath "cosmossdk.io/math"
	evmtypes "github.com/palomachain/paloma/v2/x/evm/types"
	treasurytypes "github.com/palomachain/paloma/v2/x/treasury/types"
	"github.com/palomachain/paloma/v2/zzverif/hist"
	"github.com/palomachain/paloma/v2/zzverif/world"
)

func init() {
	if len(os.Args) > 1 && os.Args[1] == "hist" {
		histProbe()
		os.Exit(0)
	}
}

func histProbe() {
	var run *hist.Run
	h := hist.Hooks{
		Mutate: func(i int, txs []hist.Tx) []hist.Tx {
			for _, t := range txs {
				for _, m := range t.Msgs {
					if u, ok := m.(*treasurytypes.MsgUpsertRelayerFee); ok {
						_ = u
						_ = sdkmath.LegacyNewDec
					}
				}
			}
			return txs
		},
		OnBlock: func(i int, height int64, resp *abci.ResponseFinalizeBlock) {
			for k, r := range resp.TxResults {
				if r.Code != 0 && (i > 295 || i <= 20) {
					fmt.Println("blk", i, "tx", k, "code", r.Code, r.Log[:min(len(r.Log), 150)])
				}
			}
		},
		BeforeBlock: func(i int, r *hist.Run) {
			run = r
			if i == 299 || i == 301 || i == 303 || i == 306 {
				ctx0 := r.W.App.NewUncachedContext(false, r.W.Root.BlockHeader())
				for _, sub := range []string{"validators-balances", "reference-block"} {
					for _, m := range r.W.Queue(ctx0, "evm/"+hist.Ref+"/"+sub) {
						cm, _ := m.ConsensusMsg(r.W.App.AppCodec())
						fmt.Printf("  blk %d %s msg %d sigs=%d ev=%d %v\n", i, sub, m.GetId(), len(m.GetSignData()), len(m.GetEvidence()), cm)
					}
				}
			}
			if i == 55 {
				ctx0 := r.W.App.NewUncachedContext(false, r.W.Root.BlockHeader())
				sn, _ := r.W.App.ValsetKeeper.GetCurrentSnapshot(ctx0)
				on, _ := r.W.App.ValsetKeeper.GetLatestSnapshotOnChain(ctx0, hist.Ref)
				fmt.Println("snapshot id", sn.GetId(), "created", sn.CreatedAt, "on-chain", on.GetId(), on.CreatedAt)
				for _, v := range sn.Validators {
					fmt.Println("   ", v.Address.String()[len(v.Address.String())-6:], v.ShareCount)
				}
			}
			if false {
				ctx := r.W.App.NewUncachedContext(false, r.W.Root.BlockHeader())
				for _, m := range r.W.Queue(ctx, world.TurnstoneQueue(hist.Ref)) {
					cm, _ := m.ConsensusMsg(r.W.App.AppCodec())
					em := cm.(*evmtypes.Message)
					fmt.Printf("  blk %d msg %d assignee %s est=%d sigs=%d\n", i, m.GetId(), em.Assignee[len(em.Assignee)-6:], m.GetGasEstimate(), len(m.GetSignData()))
				}
				for _, v := range r.W.Vals {
					fmt.Println("   val", v.Name, v.ValAddr.String()[len(v.ValAddr.String())-6:])
				}
			}
		},
	}
	out, r := hist.Execute(h)
	fmt.Println("blocks", len(out), "panic", r.Panic, r.PanicAt)
	_ = run
}

func init() {
	if len(os.Args) > 1 && os.Args[1] == "pick" {
		w := world.New(world.Config{Stakes: world.StakesOf(1_000_000, 1_000_000, 1_000_000, 500_000), Users: []string{"U1"}, Height: 101})
		ctx := w.Root
		must(w.StdChain(ctx, hist.Ref))
		vm, err := w.App.MetrixKeeper.Validators(ctx, nil)
		fmt.Println(err)
		for _, m := range vm.ValMetrics {
			fmt.Printf("%s uptime=%s succ=%s exec=%s feat=%s\n", m.ValAddress[len(m.ValAddress)-6:], m.Uptime, m.SuccessRate, m.ExecutionTime, m.FeatureSet)
		}
		fees, err := w.App.TreasuryKeeper.GetRelayerFeesByChainReferenceID(ctx, hist.Ref)
		fmt.Println(fees, err)
		for i := 0; i < 8; i++ {
			c := world.Advance(ctx, int64(i), 0)
			c = world.At(c, c.BlockHeight(), c.BlockTime().Add(1e9*1))
			ctx = c
			a, r, err := w.App.EvmKeeper.PickValidatorForMessage(c, hist.Ref, nil)
			fmt.Println(c.BlockTime().Unix()%4, a[len(a)-6:], r, err)
		}
		os.Exit(0)
	}
}
