package hist

import (
	"crypto/sha256"
	"encoding/hex"
	"fmt"
	"time"

	abci "github.com/cometbft/cometbft/abci/types"
	cmtproto "github.com/cometbft/cometbft/proto/tendermint/types"
	dbm "github.com/cosmos/cosmos-db"
	sdk "github.com/cosmos/cosmos-sdk/types"
	keeperutil "github.com/palomachain/paloma/v2/util/keeper"
	evmtypes "github.com/palomachain/paloma/v2/x/evm/types"
	"github.com/palomachain/paloma/v2/zzverif/world"
)

type BlockDigest struct {
	Height int64
	Hash   string
	Detail []string // per-tx result summaries, for reports
}

// Hooks customise one execution of the history.
type Hooks struct {
	// Blocks overrides the number of blocks (default Script.Blocks()).
	Blocks int
	// BeforeBlock runs before block index i is built; it may restart the app
	// (return a new world) or run queries. height/t are those of the previous block.
	BeforeBlock func(i int, r *Run)
	// Mutate may rewrite the unsigned transactions of block i.
	Mutate func(i int, txs []Tx) []Tx
	// AfterSetup runs once after the scripted scenario set-up (before the first scripted block).
	AfterSetup func(r *Run)
	// OnBlock observes the raw response of every block.
	OnBlock func(i int, height int64, resp *abci.ResponseFinalizeBlock)
	// Stop, when set, ends the execution before block index i (a bounded horizon).
	Stop func(i int) bool
}

// Run is the state of one execution.
type Run struct {
	Cfg           world.Config
	W             *world.World
	Script        *Script
	Height        int64
	Time          time.Time
	TxCount, TxOK int
	// Panic holds the value of a panic that escaped FinalizeBlock/Commit.
	Panic   interface{}
	PanicAt int64
	// Stopped is set when Hooks.Stop ended the execution early.
	Stopped bool
	// PanicStage is "script" (harness: building the block's txs) or "abci" (FinalizeBlock / Commit).
	PanicStage string
}

// FastForwardMessageIDs advances the global consensus-queue message id counter by n, as n further
// queued messages would (long histories in short: aging rules keyed on message ids — the metrix
// scoring window — then see old records). It writes the counter through the same id generator
// the consensus keeper uses, into the root store between two blocks.
func (r *Run) FastForwardMessageIDs(n int) {
	ctx := r.W.App.NewUncachedContext(false, r.W.Root.BlockHeader())
	ider := keeperutil.NewIDGenerator(r.W.App.ConsensusKeeper, nil)
	for i := 0; i < n; i++ {
		ider.IncrementNextID(ctx, "consensus-queue-counter-")
	}
}

// Restart throws the application away and re-creates it over the same DB.
func (r *Run) Restart() {
	r.Cfg.Restart = true
	r.W = world.New(r.Cfg)
	r.Script.W = r.W
}

// Genesis is the chain time of the scripted history: the evening of a January 31st in a leap
// year, so that calendar arithmetic (vesting months) differs between time zones.
var Genesis = time.Date(2024, 1, 31, 20, 0, 0, 0, time.UTC)

func DefaultConfig() world.Config {
	return world.Config{Stakes: world.StakesOf(1_000_000, 1_000_000, 1_000_000, 500_000), Users: []string{"adm", "U1", "U2"}, Time: Genesis}
}

// Execute runs the scripted history through InitChain / FinalizeBlock / Commit.
func Execute(h Hooks) (out []BlockDigest, run *Run) { return ExecuteWith(h, nil) }

// ExecuteWith is Execute with a tweak of the world configuration.
func ExecuteWith(h Hooks, tweak func(*world.Config)) (out []BlockDigest, run *Run) {
	cfg := DefaultConfig()
	cfg.DB = dbm.NewMemDB()
	if tweak != nil {
		tweak(&cfg)
	}
	w := world.New(cfg)
	sc := NewScript(w)
	sc.Setup()
	run = &Run{Cfg: cfg, W: w, Script: sc, Height: 1, Time: w.Root.BlockTime()}
	if h.AfterSetup != nil {
		h.AfterSetup(run)
	}
	n := sc.Blocks()
	if h.Blocks > 0 {
		n = h.Blocks
	}
	out = run.blocks(sc, h, 0, n)
	return out, run
}

// blocks executes block indices from..n-1 of the script.
func (run *Run) blocks(sc *Script, h Hooks, from, n int) (out []BlockDigest) {
	for i := from; i < n; i++ {
		if h.Stop != nil && h.Stop(i) {
			run.Stopped = true
			break
		}
		if h.BeforeBlock != nil {
			h.BeforeBlock(i, run)
		}
		run.Height++
		run.Time = run.Time.Add(time.Duration(1+(i*7)%5) * time.Second) // irregular block times: relayer picks depend on time mod n
		stop := func() (stop bool) {
			stage := "script"
			defer func() {
				if p := recover(); p != nil {
					run.Panic, run.PanicAt, run.PanicStage = p, run.Height, stage
					stop = true
				}
			}()
			rctx := run.W.App.NewUncachedContext(false, cmtproto.Header{ChainID: world.ChainID, Height: run.Height, Time: run.Time})
			txs := sc.TxsFor(i, rctx)
			if h.Mutate != nil {
				txs = h.Mutate(i, txs)
			}
			var raw [][]byte
			for _, tx := range sc.Sign(rctx, txs) {
				bz, err := run.W.App.TxConfig().TxEncoder()(tx)
				if err != nil {
					panic(err)
				}
				raw = append(raw, bz)
			}
			stage = "abci"
			resp, err := run.W.App.FinalizeBlock(&abci.RequestFinalizeBlock{Height: run.Height, Time: run.Time, Txs: raw})
			if err != nil {
				out = append(out, BlockDigest{Height: run.Height, Hash: "finalize-error:" + err.Error()})
				return true
			}
			if _, err := run.W.App.Commit(); err != nil {
				panic(err)
			}
			out = append(out, Digest(run.Height, resp))
			if h.OnBlock != nil {
				h.OnBlock(i, run.Height, resp)
			}
			run.TxCount += len(raw)
			for _, r := range resp.TxResults {
				if r.Code == 0 {
					run.TxOK++
				}
			}
			return false
		}()
		if stop {
			break
		}
	}
	return out
}

// Snapshot is the durable state of a node between two blocks (its database) together with the
// state of the outside world (the scripted relayers), from which a restarted node continues.
type Snapshot struct {
	At     int // the next block index
	DB     *dbm.MemDB
	Bytes  int
	Cfg    world.Config
	Height int64
	Time   time.Time
	script Script
}

// Snapshot copies the database; call it from BeforeBlock(i): the state before block index i.
func (run *Run) Snapshot(i int) *Snapshot {
	src, ok := run.Cfg.DB.(*dbm.MemDB)
	if !ok {
		panic("hist: snapshot needs a MemDB")
	}
	cp := dbm.NewMemDB()
	it, err := src.Iterator(nil, nil)
	if err != nil {
		panic(err)
	}
	n := 0
	for ; it.Valid(); it.Next() {
		k, v := append([]byte{}, it.Key()...), append([]byte{}, it.Value()...)
		if err := cp.Set(k, v); err != nil {
			panic(err)
		}
		n += len(k) + len(v)
	}
	it.Close()
	sn := &Snapshot{At: i, DB: cp, Bytes: n, Cfg: run.Cfg, Height: run.Height, Time: run.Time, script: *run.Script}
	sn.script.proofs = map[string]*evmtypes.TxExecutedProof{}
	for k, v := range run.Script.proofs {
		sn.script.proofs[k] = v
	}
	return sn
}

// Resume starts a fresh application over the snapshot's database — a node that was stopped at that
// block boundary and started again — and executes the rest of the history. The returned digests
// start at block index s.At. A snapshot is used once (its database is written to).
func Resume(s *Snapshot, h Hooks) (out []BlockDigest, run *Run) {
	cfg := s.Cfg
	cfg.DB = s.DB
	cfg.Restart = true
	w := world.New(cfg)
	sc := s.script
	sc.W = w
	run = &Run{Cfg: cfg, W: w, Script: &sc, Height: s.Height, Time: s.Time}
	n := sc.Blocks()
	if h.Blocks > 0 {
		n = h.Blocks
	}
	return run.blocks(&sc, h, s.At, n), run
}

func Digest(height int64, resp *abci.ResponseFinalizeBlock) BlockDigest {
	hs := sha256.New()
	hs.Write(resp.AppHash)
	var detail []string
	ev := func(es []abci.Event) {
		for _, e := range es {
			hs.Write([]byte(e.Type))
			for _, a := range e.Attributes {
				hs.Write([]byte(a.Key))
				hs.Write([]byte{0})
				hs.Write([]byte(a.Value))
				hs.Write([]byte{1})
			}
		}
	}
	for i, r := range resp.TxResults {
		fmt.Fprintf(hs, "%d|%d|%s|%x|%d|", i, r.Code, r.Codespace, r.Data, r.GasUsed)
		ev(r.Events)
		l := r.Log
		if len(l) > 90 {
			l = l[:90]
		}
		detail = append(detail, fmt.Sprintf("tx%d code=%d gas=%d %s", i, r.Code, r.GasUsed, l))
	}
	ev(resp.Events)
	return BlockDigest{Height: height, Hash: hex.EncodeToString(hs.Sum(nil)[:16]) + "/" + hex.EncodeToString(resp.AppHash[:8]), Detail: detail}
}

var _ sdk.Context
