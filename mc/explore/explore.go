// Package explore is a breadth-first explicit-state search whose states are
// forked sdk.Contexts of the real application plus a ghost reference model and
// whose transitions are calls of real handlers.
package explore

import (
	"fmt"
	"time"

	sdk "github.com/cosmos/cosmos-sdk/types"
	"github.com/palomachain/paloma/v2/zzverif/report"
	"github.com/palomachain/paloma/v2/zzverif/world"
)

// Ghost is the reference-model half of a state.
type Ghost interface {
	Clone() Ghost
	// Key is folded into the canonical state hash.
	Key() string
}

type Node struct {
	Ctx   sdk.Context
	Ghost Ghost
	Path  []string
}

// Op is one labelled transition. Do mutates ctx (already forked) and ghost
// (already cloned); it returns a non-nil error to report a violation of the
// step oracle. Signature (optional) classifies the violation.
type Op struct {
	Label string
	Do    func(ctx *sdk.Context, g Ghost) *Fail
}

type Fail struct {
	Signature string
	Message   string
}

func Failf(sig, format string, a ...interface{}) *Fail {
	return &Fail{Signature: sig, Message: fmt.Sprintf(format, a...)}
}

type Spec struct {
	Name string
	Init []*Node
	// Ops lists the enabled operations in a state (small finite menu).
	Ops func(n *Node) []Op
	// Hash is the canonical form of a state for deduplication.
	Hash func(n *Node) string
	// Invariant is evaluated in every state.
	Invariant func(n *Node) *Fail
	MaxDepth  int
	Deadline  time.Time
	MaxStates int64
	// Sharding: all workers run the search identically down to ShardDepth, then
	// worker Shard keeps every NShards-th frontier node (prefix levels are
	// counted by shard 0 only). Dedup is per worker below ShardDepth (over-fine,
	// costs time only).
	ShardDepth, Shard, NShards int
}

type Result struct {
	States, Transitions int64
	DepthCompleted      int
	Capped              bool
}

// Run explores spec and records counters / violations into r.
func Run(r *report.Run, spec Spec) Result {
	seen := map[string]struct{}{}
	var res Result
	frontier := []*Node{}
	for _, n := range spec.Init {
		k := spec.Hash(n)
		if _, ok := seen[k]; ok {
			continue
		}
		seen[k] = struct{}{}
		res.States++
		if spec.Invariant != nil {
			if f := spec.Invariant(n); f != nil {
				r.Violate(f.Signature, f.Message, map[string]interface{}{"scenario": spec.Name, "path": n.Path})
			}
		}
		frontier = append(frontier, n)
	}
	depth := 0
	count := func() bool { return spec.NShards <= 1 || spec.Shard == 0 || depth >= spec.ShardDepth }
	if !count() {
		res.States = 0
	}
	for depth < spec.MaxDepth && len(frontier) > 0 {
		if spec.NShards > 1 && depth == spec.ShardDepth {
			var mine []*Node
			for i, n := range frontier {
				if i%spec.NShards == spec.Shard {
					mine = append(mine, n)
				}
			}
			frontier = mine
		}
		var next []*Node
		for _, n := range frontier {
			if !spec.Deadline.IsZero() && time.Now().After(spec.Deadline) {
				res.Capped = true
				r.Cap(fmt.Sprintf("%s: deadline at depth %d", spec.Name, depth))
				goto done
			}
			if spec.MaxStates > 0 && res.States >= spec.MaxStates {
				res.Capped = true
				r.Cap(fmt.Sprintf("%s: max states %d at depth %d", spec.Name, spec.MaxStates, depth))
				goto done
			}
			for _, op := range spec.Ops(n) {
				ctx := world.Fork(n.Ctx)
				g := n.Ghost.Clone()
				path := append(append([]string{}, n.Path...), op.Label)
				if count() {
					res.Transitions++
				}
				if f := op.Do(&ctx, g); f != nil {
					r.Violate(f.Signature, f.Message, map[string]interface{}{"scenario": spec.Name, "path": path})
					continue
				}
				c := &Node{Ctx: ctx, Ghost: g, Path: path}
				if spec.Invariant != nil {
					if f := spec.Invariant(c); f != nil {
						r.Violate(f.Signature, f.Message, map[string]interface{}{"scenario": spec.Name, "path": path})
						continue
					}
				}
				k := spec.Hash(c)
				if _, ok := seen[k]; ok {
					continue
				}
				seen[k] = struct{}{}
				if count() {
					res.States++
				}
				if res.States%97 == 1 {
					r.Sample(map[string]interface{}{"scenario": spec.Name, "path": path})
				}
				next = append(next, c)
			}
		}
		depth++
		res.DepthCompleted = depth
		frontier = next
	}
done:
	r.States += res.States
	r.Transitions += res.Transitions
	return res
}

// Replay re-executes a recorded path (op labels) from the initial node of spec
// with no search involved, and returns the first failure it meets.
func Replay(spec Spec, path []string) *Fail {
	for _, init := range spec.Init {
		if len(init.Path) > len(path) {
			continue
		}
		match := true
		for i := range init.Path {
			if init.Path[i] != path[i] {
				match = false
			}
		}
		if !match {
			continue
		}
		n := &Node{Ctx: world.Fork(init.Ctx), Ghost: init.Ghost.Clone(), Path: append([]string{}, init.Path...)}
		ok := true
		for _, label := range path[len(init.Path):] {
			var found *Op
			for _, op := range spec.Ops(n) {
				if op.Label == label {
					o := op
					found = &o
					break
				}
			}
			if found == nil {
				ok = false
				break
			}
			if f := found.Do(&n.Ctx, n.Ghost); f != nil {
				return f
			}
			n.Path = append(n.Path, label)
			if spec.Invariant != nil {
				if f := spec.Invariant(n); f != nil {
					return f
				}
			}
		}
		if ok {
			return nil
		}
	}
	return &Fail{Signature: "replay-mismatch", Message: "path does not match any initial node / enabled op"}
}
