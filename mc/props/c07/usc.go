package main

import (
	"fmt"
	"sort"
	"strings"
	"time"

	sdk "github.com/cosmos/cosmos-sdk/types"
	ethcommon "github.com/ethereum/go-ethereum/common"
	ethtypes "github.com/ethereum/go-ethereum/core/types"
	evmtypes "github.com/palomachain/paloma/v2/x/evm/types"
	"github.com/palomachain/paloma/v2/zzverif/world"
)

// Two deployments of the same user contract in flight on the same chain,
// requested at heights h1 < h2 (two UploadUserSmartContract messages, each with
// elected estimate, fees, signatures, public access data). Attesting message X
// must settle exactly the deployment record created at X's height, with the
// address reported by X's receipt; every other record stays as it was.

// buildUserPairBase is called while the root still is in its pre-estimate state.
func (s *scenario) buildUserPairBase(root sdk.Context) {
	w := s.w
	u1 := w.User("U1")
	ctx := world.Advance(world.Fork(root), 3, 5*time.Second)
	mustOK("deploy user contract again", w.DeliverTx(ctx, []*world.Actor{u1}, &evmtypes.MsgDeployUserSmartContractRequest{Metadata: world.Meta(u1), Id: s.userID, TargetChain: ref}))
	s.estimate(ctx, 0)
	s.sign(ctx, variants[0].Order)
	s.bases["U"] = ctx
}

type userRec struct {
	Created int64
	Status  string
	Address string
	Updated int64
}

func (e *env) userRecords(ctx sdk.Context) []userRec {
	cs, err := e.s.w.App.EvmKeeper.UserSmartContracts(ctx, e.s.userOwner.String())
	must(err)
	var out []userRec
	for _, c := range cs {
		for _, d := range c.Deployments {
			if d.ChainReferenceId == ref {
				out = append(out, userRec{d.CreatedAtBlockHeight, d.Status.String(), d.Address, d.UpdatedAtBlockHeight})
			}
		}
	}
	sort.Slice(out, func(i, j int) bool { return out[i].Created < out[j].Created })
	return out
}

func (e *env) userPairTargets() []*target {
	var out []*target
	ctx := e.s.bases["U"]
	for _, m := range e.s.w.Queue(ctx, e.s.queue) {
		em := e.s.evmMsg(m)
		if kindOf(em) != kUSC {
			continue
		}
		t := &target{Kind: kUSC, ID: m.GetId(), Base: "U", Msg: em, Sigs: m.GetSignData(), Gas: m.GetGasEstimate()}
		if pad := m.GetPublicAccessData(); pad != nil {
			t.PubVS = pad.GetValsetID()
		}
		out = append(out, t)
	}
	sort.Slice(out, func(i, j int) bool {
		return out[i].Msg.GetUploadUserSmartContract().BlockHeight < out[j].Msg.GetUploadUserSmartContract().BlockHeight
	})
	return out
}

func childOf(t *target) ethcommon.Address {
	var a ethcommon.Address
	a[0], a[1], a[19] = 0xc0, 0xde, byte(t.ID)
	return a
}

func (e *env) userProof(ctx sdk.Context, t *target) *evmtypes.TxExecutedProof {
	data, err := e.s.reference(ctx, t, t.Sigs).pack(e.abi)
	must(err)
	rel := e.s.valByEth(t.Msg.AssigneeRemoteAddress)
	tx := buildTx(data, txOpts{To: &e.s.compassAddr, Nonce: 100 + t.ID, ChainID: e.s.chainID, Signer: rel})
	raw, err := tx.MarshalBinary()
	must(err)
	lg := deployedLog(e.abi, e.s.compassAddr, childOf(t), ethcommon.HexToAddress(deployerA), int64(t.ID))
	return &evmtypes.TxExecutedProof{SerializedTX: raw, SerializedReceipt: buildReceipt(tx, rcptOpts{Status: 1, Logs: []*ethtypes.Log{lg}})}
}

// userPairPlans: which message is attested in which block (0 = older, 1 = younger).
var userPairPlans = []struct {
	Name   string
	Blocks [][]int
}{
	{"only-older", [][]int{{0}}},
	{"only-younger", [][]int{{1}}},
	{"older-then-younger", [][]int{{0}, {1}}},
	{"younger-then-older", [][]int{{1}, {0}}},
	{"both-in-one-block", [][]int{{0, 1}}},
}

func (e *env) runUserPair(pi int) {
	plan := userPairPlans[pi]
	key := "user-contract-two-deployments-in-flight|" + plan.Name
	if e.replay != "" && key != e.replay {
		return
	}
	if e.capped {
		return
	}
	rep := map[string]interface{}{"case": key}
	ts := e.userPairTargets()
	if len(ts) != 2 || ts[0].Msg.GetUploadUserSmartContract().BlockHeight >= ts[1].Msg.GetUploadUserSmartContract().BlockHeight {
		e.r.Violate("harness:user-pair-scenario", fmt.Sprintf("expected two UploadUserSmartContract messages of different heights, got %d", len(ts)), rep)
		return
	}
	e.r.Case(key)
	e.stats["user-pair-sequences"]++
	names := []string{"older", "younger"}
	ctx := world.Fork(e.s.bases["U"])
	want := e.userRecords(ctx) // reference model: the pre-state, updated by what each attested message must do
	if len(want) != 2 || want[0].Status != "IN_FLIGHT" || want[1].Status != "IN_FLIGHT" {
		e.r.Violate("harness:user-pair-scenario", fmt.Sprintf("pre-state records %+v", want), rep)
		return
	}
	var trace []string
	for bi, blk := range plan.Blocks {
		if bi > 0 {
			ctx = world.Advance(ctx, 1, 2*time.Second)
		}
		for _, xi := range blk {
			t := ts[xi]
			if ee := e.offer(ctx, t.ID, e.userProof(ctx, t)); ee != "" {
				e.r.Violate("harness:evidence-tx-refused", key+": "+ee, rep)
				return
			}
		}
		hits := e.endBlock(ctx)
		for _, xi := range blk {
			t := ts[xi]
			h := t.Msg.GetUploadUserSmartContract().BlockHeight
			for i := range want {
				if want[i].Created == h {
					want[i].Status, want[i].Address, want[i].Updated = "ACTIVE", childOf(t).String(), ctx.BlockHeight()
				}
			}
			trace = append(trace, fmt.Sprintf("block %d: reference transaction of the %s message (id %d, deployment requested at height %d, receipt reports child %s) attested: removed=%v log=%s",
				bi, names[xi], t.ID, h, childOf(t), !e.queued(ctx, t.ID), rejectClass(hits)))
			if len(hits) > 0 || e.queued(ctx, t.ID) {
				e.r.Violate("reject-valid:"+kUSC+":two-deployments-in-flight", strings.Join(trace, "\n")+fmt.Sprintf("\n%v", hits), rep)
				return
			}
		}
		got := e.userRecords(ctx)
		if fmt.Sprint(got) != fmt.Sprint(want) {
			e.r.Violate("effect-on-wrong-deployment-record:"+kUSC, fmt.Sprintf("%s\nuser contract deployment records (created, status, address, updated):\n  are      %+v\n  expected %+v", strings.Join(trace, "\n"), got, want), rep)
			return
		}
	}
	e.stats["user-pair-sequences-ok"]++
}
