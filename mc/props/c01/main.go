// C01 — bridge escrow conservation and all-or-nothing transfer lifecycle.
// BFS over the real skyway handlers and end-blocker on forked application
// state, with a failure injected at every collaborator call of every operation
// (a second skyway keeper built over the same store with counting / failing
// proxies for bank and EVM keepers).
package main

import (
	"context"
	"encoding/json"
	"errors"
	"flag"
	"fmt"
	"math/big"
	"os"
	"sort"
	"strings"
	"time"

	sdkmath "cosmossdk.io/math"
	sdk "github.com/cosmos/cosmos-sdk/types"
	authcodec "github.com/cosmos/cosmos-sdk/x/auth/codec"
	chainparams "github.com/palomachain/paloma/v2/app/params"
	xchain "github.com/palomachain/paloma/v2/internal/x-chain"
	evmtypes "github.com/palomachain/paloma/v2/x/evm/types"
	skywaykeeper "github.com/palomachain/paloma/v2/x/skyway/keeper"
	skywaytypes "github.com/palomachain/paloma/v2/x/skyway/types"
	treasurytypes "github.com/palomachain/paloma/v2/x/treasury/types"
	vtypes "github.com/palomachain/paloma/v2/x/valset/types"
	"github.com/palomachain/paloma/v2/zzverif/explore"
	"github.com/palomachain/paloma/v2/zzverif/report"
	"github.com/palomachain/paloma/v2/zzverif/world"
)

const ref = "eth-main"

var erc20s = []string{"0x1111111111111111111111111111111111111111", "0x2222222222222222222222222222222222222222"}

// ---------------------------------------------------------------------------
// fault proxies

type faultCtl struct {
	calls  int
	failAt int // 1-based; 0 = never
	sites  []string
}

var errInjected = errors.New("verif: injected collaborator failure")

func (f *faultCtl) hit(site string) bool {
	f.calls++
	f.sites = append(f.sites, site)
	return f.calls == f.failAt
}

type bankProxy struct {
	skywaytypes.BankKeeper
	f *faultCtl
}

func (b bankProxy) SendCoinsFromModuleToAccount(ctx context.Context, m string, r sdk.AccAddress, amt sdk.Coins) error {
	if b.f.hit("bank.SendCoinsFromModuleToAccount") {
		return errInjected
	}
	return b.BankKeeper.SendCoinsFromModuleToAccount(ctx, m, r, amt)
}

func (b bankProxy) SendCoinsFromAccountToModule(ctx context.Context, s sdk.AccAddress, m string, amt sdk.Coins) error {
	if b.f.hit("bank.SendCoinsFromAccountToModule") {
		return errInjected
	}
	return b.BankKeeper.SendCoinsFromAccountToModule(ctx, s, m, amt)
}

func (b bankProxy) SendCoinsFromModuleToModule(ctx context.Context, s, r string, amt sdk.Coins) error {
	if b.f.hit("bank.SendCoinsFromModuleToModule") {
		return errInjected
	}
	return b.BankKeeper.SendCoinsFromModuleToModule(ctx, s, r, amt)
}

func (b bankProxy) MintCoins(ctx context.Context, n string, amt sdk.Coins) error {
	if b.f.hit("bank.MintCoins") {
		return errInjected
	}
	return b.BankKeeper.MintCoins(ctx, n, amt)
}

func (b bankProxy) BurnCoins(ctx context.Context, n string, amt sdk.Coins) error {
	if b.f.hit("bank.BurnCoins") {
		return errInjected
	}
	return b.BankKeeper.BurnCoins(ctx, n, amt)
}

func (b bankProxy) SendCoins(ctx context.Context, from, to sdk.AccAddress, amt sdk.Coins) error {
	if b.f.hit("bank.SendCoins") {
		return errInjected
	}
	return b.BankKeeper.SendCoins(ctx, from, to, amt)
}

type evmProxy struct {
	skywaytypes.EVMKeeper
	f *faultCtl
}

func (e evmProxy) GetChainInfo(ctx context.Context, id string) (*evmtypes.ChainInfo, error) {
	if e.f.hit("evm.GetChainInfo") {
		return nil, errInjected
	}
	return e.EVMKeeper.GetChainInfo(ctx, id)
}

func (e evmProxy) PickValidatorForMessage(ctx context.Context, id string, req *xchain.JobRequirements) (string, string, error) {
	if e.f.hit("evm.PickValidatorForMessage") {
		return "", "", errInjected
	}
	return e.EVMKeeper.PickValidatorForMessage(ctx, id, req)
}

func (e evmProxy) GetEthAddressByValidator(ctx context.Context, v sdk.ValAddress, id string) (*skywaytypes.EthAddress, bool, error) {
	if e.f.hit("evm.GetEthAddressByValidator") {
		return nil, false, errInjected
	}
	return e.EVMKeeper.GetEthAddressByValidator(ctx, v, id)
}

// ---------------------------------------------------------------------------
// ghost

type xfer struct {
	ID     uint64
	Sender string
	Tok    int
	Amount int64
	Tax    int64
	Place  string // pool | batch:<nonce> | refunded | burned
}

type ghost struct {
	X        []xfer
	Deposits []int64 // per token, total attested deposits applied
	Burned   []int64 // per token
	UserBal  map[string][]int64
	Pool     []int64 // community pool delta per token
	Skynonce uint64
	FeesOff  bool
	Remapped bool // governance bound token 1's denom to another contract while transfers were pending
	AccsOff  bool // validators have no account on the bridge's chain any more (the published snapshot still lists them)
}

func (g *ghost) Clone() explore.Ghost {
	n := &ghost{X: append([]xfer{}, g.X...), Deposits: append([]int64{}, g.Deposits...), Burned: append([]int64{}, g.Burned...),
		Pool: append([]int64{}, g.Pool...), UserBal: map[string][]int64{}, Skynonce: g.Skynonce, FeesOff: g.FeesOff, AccsOff: g.AccsOff, Remapped: g.Remapped}
	for k, v := range g.UserBal {
		n.UserBal[k] = append([]int64{}, v...)
	}
	return n
}

func (g *ghost) Key() string { b, _ := json.Marshal(g); return string(b) }

type env struct {
	w       *world.World
	users   []*world.Actor
	denoms  []string
	ntok    int
	amounts []int64
	faulty  skywaykeeper.Keeper
	fc      *faultCtl
	faults  bool
	init    map[string][]*big.Int // initial balances per user per token
	supply0 []*big.Int
	pool0   []*big.Int
}

func main() {
	replay := flag.String("replay", "", "replay file")
	flag.Parse()
	n := 8
	if report.Tier() == "thorough" {
		n = report.Workers()
	}
	report.Main("C01", "fault_enumeration", n, func(r *report.Run, shard, nshards int) { run(r, shard, nshards, *replay) })
}

func must(err error) {
	if err != nil {
		panic(err)
	}
}

func run(r *report.Run, shard, nshards int, replayFile string) {
	w := world.New(world.Config{Stakes: world.StakesOf(1_000_000, 1_000_000, 1_000_000), Users: []string{"adm", "U1", "U2"}, Height: 101})
	ctx := w.Root
	must(w.StdChain(ctx, ref))
	e := &env{w: w, users: []*world.Actor{w.User("U1"), w.User("U2")}, ntok: 1, amounts: []int64{3, 10}, faults: true}
	if r.Thorough() {
		e.ntok = 2
		e.amounts = []int64{1, 3, 10}
	}
	for i := 0; i < 2; i++ {
		d, err := w.BridgeToken(ctx, w.User("adm"), fmt.Sprintf("t%d", i+1), ref, erc20s[i], 1000, e.users...)
		must(err)
		e.denoms = append(e.denoms, d)
	}
	must(w.App.SkywayKeeper.SetBridgeTax(ctx, &skywaytypes.BridgeTax{Token: e.denoms[0], Rate: "1/3", ExemptAddresses: []sdk.AccAddress{e.users[1].Addr}}))
	// second keeper over the same store with failing collaborators
	e.fc = &faultCtl{}
	a := w.App
	e.faulty = skywaykeeper.NewKeeper(a.AppCodec(), a.AccountKeeper, a.StakingKeeper, bankProxy{a.BankKeeper, e.fc}, a.SlashingKeeper,
		a.DistrKeeper, a.TransferKeeper, evmProxy{a.EvmKeeper, e.fc}, a.ConsensusKeeper, a.PalomaKeeper, a.TokenFactoryKeeper,
		skywaykeeper.NewSkywayStoreGetter(a.GetKey(skywaytypes.StoreKey)), w.Gov, authcodec.NewBech32Codec(chainparams.ValidatorAddressPrefix))

	e.init = map[string][]*big.Int{}
	for _, u := range e.users {
		for _, d := range e.denoms {
			e.init[u.Name] = append(e.init[u.Name], w.Balance(ctx, u.Addr, d))
		}
	}
	for _, d := range e.denoms {
		e.supply0 = append(e.supply0, w.Supply(ctx, d))
		e.pool0 = append(e.pool0, e.communityPool(ctx, d))
	}
	r.Rule = "BFS over Send/Cancel/EndBlk50 (batch build)/EndBlkLate (timeout sweep)/EstimateQuorum/ExecutedQuorum/DepositQuorum/GovTax (bridge tax rate or exemption changed while transfers are pending)/GovRemap (the denom bound to another remote contract while transfers are pending)/DropFees/RestoreFees/DropAccounts/RestoreAccounts (the validators' accounts on the bridge's chain replaced after the snapshot was published) on the real skyway handlers and end-blocker; every operation is additionally executed once per collaborator call it makes in that state (bank, EVM keeper) with that call failing; a case is distinct by (skyway store, balances, ghost ledger)"
	r.Assumptions = []string{
		"fault-injected variants of message handlers run through keeper.NewMsgServerImpl(faultyKeeper) inside a cache context (ante not re-run); un-faulted variants are really signed txs through ante + router",
		"quorum operations (estimates, claims) are macros of three validator messages + end-blocker; vote interleavings are C02's subject",
		"heights: only h mod 50 is read by the explored code; block time advances 11 min in EndBlkLate",
	}
	g0 := &ghost{Deposits: make([]int64, 2), Burned: make([]int64, 2), Pool: make([]int64, 2), UserBal: map[string][]int64{"U1": {0, 0}, "U2": {0, 0}}}
	spec := explore.Spec{
		Name: "bridge", Init: []*explore.Node{{Ctx: ctx, Ghost: g0}}, Ops: e.ops,
		Hash:      e.hash,
		Invariant: e.invariant,
		MaxDepth:  4, Deadline: r.Deadline(170*time.Second, 28*time.Minute),
		ShardDepth: 2, Shard: shard, NShards: nshards,
	}
	if r.Thorough() {
		spec.MaxDepth = 6
	}
	if replayFile != "" {
		if shard == 0 {
			replay(r, spec, replayFile)
		}
		return
	}
	res := explore.Run(r, spec)
	r.Evaluations = r.Transitions
	r.DistinctN = r.States
	if shard == 0 {
		r.Extra["depth_completed"] = float64(res.DepthCompleted)
	}
	r.Extra["fault_points_injected"] = float64(faultsInjected)
}

var faultsInjected int

func replay(r *report.Run, spec explore.Spec, file string) {
	var v report.Violation
	b, err := os.ReadFile(file)
	if err == nil {
		err = json.Unmarshal(b, &v)
	}
	if err != nil {
		fmt.Fprintln(os.Stderr, err)
		os.Exit(2)
	}
	var path []string
	for _, p := range v.Replay.(map[string]interface{})["path"].([]interface{}) {
		path = append(path, p.(string))
	}
	if f := explore.Replay(spec, path); f != nil {
		r.Violate(f.Signature, f.Message, v.Replay)
	}
	r.Evaluations, r.DistinctN = int64(len(path)), 2
	r.Sample(path)
}

func (e *env) communityPool(ctx sdk.Context, denom string) *big.Int {
	fp, err := e.w.App.DistrKeeper.FeePool.Get(ctx)
	if err != nil {
		return new(big.Int)
	}
	return fp.CommunityPool.AmountOf(denom).TruncateInt().BigInt()
}

func (e *env) hash(n *explore.Node) string {
	w := e.w
	now := uint64(n.Ctx.BlockTime().Unix())
	var tc []string
	batches, _ := w.App.SkywayKeeper.GetOutgoingTxBatches(n.Ctx)
	for _, b := range batches {
		tc = append(tc, fmt.Sprintf("%d:%v", b.BatchNonce, b.BatchTimeout < now))
	}
	return n.Ghost.Key() + "|" + w.StoreDigest(n.Ctx, "skyway") + "|" + strings.Join(tc, ",") + "|" + w.StoreDigest(n.Ctx, "treasury")
}

// invariant: I1 escrow, I2 places, I3 supply, I4 user balances.
func (e *env) invariant(n *explore.Node) *explore.Fail {
	g := n.Ghost.(*ghost)
	w := e.w
	k := w.App.SkywayKeeper
	pool, err := k.GetUnbatchedTransactions(n.Ctx)
	if err != nil {
		return explore.Failf("read-pool", "GetUnbatchedTransactions: %v", err)
	}
	batches, err := k.GetOutgoingTxBatches(n.Ctx)
	if err != nil {
		return explore.Failf("read-batches", "GetOutgoingTxBatches: %v", err)
	}
	where := map[uint64][]string{}
	for _, t := range pool {
		where[t.Id] = append(where[t.Id], "pool")
	}
	for _, b := range batches {
		for _, t := range b.Transactions {
			where[t.Id] = append(where[t.Id], fmt.Sprintf("batch:%d", b.BatchNonce))
		}
	}
	escrowWant := make([]int64, 2)
	for _, x := range g.X {
		live := x.Place == "pool" || strings.HasPrefix(x.Place, "batch:")
		got := where[x.ID]
		if live {
			escrowWant[x.Tok] += x.Amount + x.Tax
			if len(got) != 1 || got[0] != x.Place {
				return explore.Failf("I2-place", "transfer %d (%s, %d+%d of token %d) should be in %s but is found in %v", x.ID, x.Sender, x.Amount, x.Tax, x.Tok, x.Place, got)
			}
		} else if len(got) != 0 {
			return explore.Failf("I2-ghost", "transfer %d is %s but still present in %v", x.ID, x.Place, got)
		}
		delete(where, x.ID)
	}
	if len(where) != 0 {
		return explore.Failf("I2-unknown", "transfers unknown to the ledger present: %v", where)
	}
	for i, d := range e.denoms {
		esc := w.Balance(n.Ctx, w.SkywayModuleAddr(), d)
		if esc.Cmp(big.NewInt(escrowWant[i])) != 0 {
			return explore.Failf("I1-escrow", "escrow of token %d holds %s, pending transfers total %d", i, esc, escrowWant[i])
		}
		sup := new(big.Int).Sub(w.Supply(n.Ctx, d), e.supply0[i])
		if sup.Cmp(big.NewInt(g.Deposits[i]-g.Burned[i])) != 0 {
			return explore.Failf("I3-supply", "supply of token %d changed by %s, attested deposits %d - executed burns %d", i, sup, g.Deposits[i], g.Burned[i])
		}
		for _, u := range e.users {
			d := new(big.Int).Sub(w.Balance(n.Ctx, u.Addr, d), e.init[u.Name][i])
			if d.Cmp(big.NewInt(g.UserBal[u.Name][i])) != 0 {
				return explore.Failf("I4-balance", "balance of %s in token %d changed by %s, ledger says %d", u.Name, i, d, g.UserBal[u.Name][i])
			}
		}
	}
	return nil
}

// snapshot of what "leaves pool, batches and balances exactly as they were" observes
func (e *env) obs(ctx sdk.Context) string {
	w := e.w
	var sb strings.Builder
	sb.WriteString(w.StoreDigest(ctx, "skyway"))
	for _, d := range e.denoms {
		sb.WriteString("|" + w.Supply(ctx, d).String() + "," + w.Balance(ctx, w.SkywayModuleAddr(), d).String())
		for _, u := range e.users {
			sb.WriteString("," + w.Balance(ctx, u.Addr, d).String())
		}
	}
	return sb.String()
}

// countCalls dry-runs f on a fork of ctx with the counting proxies.
func (e *env) countCalls(ctx sdk.Context, f func(ctx sdk.Context)) []string {
	e.fc.calls, e.fc.failAt, e.fc.sites = 0, 0, nil
	c := world.Fork(ctx)
	f(c)
	return append([]string{}, e.fc.sites...)
}

func (e *env) withFault(at int, f func()) {
	e.fc.calls, e.fc.failAt, e.fc.sites = 0, at, nil
	faultsInjected++
	f()
	e.fc.failAt = 0
}

// follow updates ghost places after an end-blocker according to what really
// happened, allowing only the moves the op is entitled to make.
func (e *env) follow(ctx sdk.Context, g *ghost, allowBuild bool, timedOut map[string]bool, execPlace string) (burned int64, fail *explore.Fail) {
	k := e.w.App.SkywayKeeper
	pool, _ := k.GetUnbatchedTransactions(ctx)
	batches, _ := k.GetOutgoingTxBatches(ctx)
	where := map[uint64]string{}
	for _, t := range pool {
		where[t.Id] = "pool"
	}
	for _, b := range batches {
		for _, t := range b.Transactions {
			if _, dup := where[t.Id]; dup {
				return 0, explore.Failf("I2-duplicate", "transfer %d is in two places", t.Id)
			}
			where[t.Id] = fmt.Sprintf("batch:%d", b.BatchNonce)
		}
	}
	for i := range g.X {
		x := &g.X[i]
		if x.Place != "pool" && !strings.HasPrefix(x.Place, "batch:") {
			continue
		}
		now, ok := where[x.ID]
		if !ok && execPlace != "" && x.Place == execPlace {
			// the batch was attested as executed in this very operation: its transfers are burned
			x.Place = "burned"
			burned += x.Amount + x.Tax
			g.Burned[x.Tok] += x.Amount + x.Tax
			continue
		}
		if !ok {
			return 0, explore.Failf("I2-stranded", "transfer %d (%d+%d of token %d from %s) was in %s and is now in no pool and no batch: coins stay locked in escrow, no refund possible", x.ID, x.Amount, x.Tax, x.Tok, x.Sender, x.Place)
		}
		if now == x.Place {
			continue
		}
		switch {
		case x.Place == "pool" && allowBuild:
		case strings.HasPrefix(x.Place, "batch:") && now == "pool" && timedOut[x.Place]:
		default:
			return 0, explore.Failf("I2-move", "transfer %d moved %s -> %s in an operation not entitled to do so", x.ID, x.Place, now)
		}
		x.Place = now
	}
	return burned, nil
}

// timedOut lists the open batches whose timeout lies before the block time of ctx.
func (e *env) timedOut(ctx sdk.Context) map[string]bool {
	out := map[string]bool{}
	batches, _ := e.w.App.SkywayKeeper.GetOutgoingTxBatches(ctx)
	for _, b := range batches {
		if b.BatchTimeout < uint64(ctx.BlockTime().Unix()) {
			out[fmt.Sprintf("batch:%d", b.BatchNonce)] = true
		}
	}
	return out
}

func (e *env) ops(n *explore.Node) []explore.Op {
	w := e.w
	g := n.Ghost.(*ghost)
	var ops []explore.Op
	add := func(label string, do func(ctx *sdk.Context, g *ghost, k *skywaykeeper.Keeper) *explore.Fail, faultable bool) {
		ops = append(ops, explore.Op{Label: label, Do: func(ctx *sdk.Context, gg explore.Ghost) *explore.Fail {
			return do(ctx, gg.(*ghost), nil)
		}})
		if !faultable || !e.faults {
			return
		}
		sites := e.countCalls(n.Ctx, func(c sdk.Context) { do(&c, n.Ghost.Clone().(*ghost), &e.faulty) })
		for i, s := range sites {
			i, s := i, s
			ops = append(ops, explore.Op{Label: fmt.Sprintf("%s!fail@%d:%s", label, i+1, s), Do: func(ctx *sdk.Context, gg explore.Ghost) *explore.Fail {
				var f *explore.Fail
				e.withFault(i+1, func() { f = do(ctx, gg.(*ghost), &e.faulty) })
				if f != nil {
					f.Signature += "@" + s
				}
				return f
			}})
		}
	}
	msgServer := func(k *skywaykeeper.Keeper) skywaytypes.MsgServer { return skywaykeeper.NewMsgServerImpl(*k) }
	// runs a user message: real signed tx when k == nil, otherwise through the faulty keeper's msg server in a tx-like cache
	userTx := func(ctx *sdk.Context, k *skywaykeeper.Keeper, signer *world.Actor, msg sdk.Msg) (bool, *explore.Fail) {
		before := e.obs(*ctx)
		var err error
		if k == nil {
			res := w.DeliverTx(*ctx, []*world.Actor{signer}, msg)
			if res.Stage == "ante" || res.Stage == "build" {
				return false, explore.Failf("harness", "ante failed: %v", res.Err)
			}
			err = res.Err
		} else {
			c, write := ctx.CacheContext()
			switch m := msg.(type) {
			case *skywaytypes.MsgSendToRemote:
				_, err = msgServer(k).SendToRemote(c, m)
			case *skywaytypes.MsgCancelSendToRemote:
				_, err = msgServer(k).CancelSendToRemote(c, m)
			default:
				panic("unsupported")
			}
			if err == nil {
				write()
			}
		}
		if err != nil && e.obs(*ctx) != before {
			return false, explore.Failf("I5-failed-tx", "failed message (%v) changed pool / batches / balances", err)
		}
		return err == nil, nil
	}

	// Send
	for _, u := range e.users {
		for tok := 0; tok < e.ntok; tok++ {
			if tok == 0 && g.Remapped {
				continue // new sends of the re-bound denom would open batches for a third contract: outside this alphabet
			}
			for _, amt := range e.amounts {
				u, tok, amt := u, tok, amt
				add(fmt.Sprintf("Send(%s,t%d,%d)", u.Name, tok+1, amt), func(ctx *sdk.Context, g *ghost, k *skywaykeeper.Keeper) *explore.Fail {
					balBefore := w.Balance(*ctx, u.Addr, e.denoms[tok])
					ok, f := userTx(ctx, k, u, &skywaytypes.MsgSendToRemote{EthDest: "0x00000000000000000000000000000000000000aa", Amount: sdk.NewInt64Coin(e.denoms[tok], amt), ChainReferenceId: ref, Metadata: world.Meta(u)})
					if f != nil || !ok {
						return f
					}
					pool, _ := w.App.SkywayKeeper.GetUnbatchedTransactions(*ctx)
					known := map[uint64]bool{}
					for _, x := range g.X {
						known[x.ID] = true
					}
					var fresh []*skywaytypes.InternalOutgoingTransferTx
					for _, t := range pool {
						if !known[t.Id] {
							fresh = append(fresh, t)
						}
					}
					if len(fresh) != 1 {
						return explore.Failf("send-record", "accepted send created %d pool records", len(fresh))
					}
					t := fresh[0]
					for _, x := range g.X {
						if x.ID >= t.Id {
							return explore.Failf("send-id", "transfer id %d not greater than earlier id %d", t.Id, x.ID)
						}
					}
					if !t.Erc20Token.Amount.Equal(sdkmath.NewInt(amt)) || !t.Sender.Equals(u.Addr) {
						return explore.Failf("send-record", "pool record %v does not match the request", t)
					}
					tax := t.BridgeTaxAmount.Int64()
					paid := new(big.Int).Sub(balBefore, w.Balance(*ctx, u.Addr, e.denoms[tok]))
					if paid.Cmp(big.NewInt(amt+tax)) != 0 {
						return explore.Failf("send-paid", "sender paid %s for amount %d + recorded tax %d", paid, amt, tax)
					}
					g.X = append(g.X, xfer{ID: t.Id, Sender: u.Name, Tok: tok, Amount: amt, Tax: tax, Place: "pool"})
					g.UserBal[u.Name][tok] -= amt + tax
					return nil
				}, true)
			}
		}
	}
	// Cancel
	ids := []uint64{999}
	for _, x := range g.X {
		if x.Place == "pool" || strings.HasPrefix(x.Place, "batch:") {
			ids = append(ids, x.ID)
		}
	}
	for _, u := range e.users {
		for _, id := range ids {
			u, id := u, id
			add(fmt.Sprintf("Cancel(%s,%d)", u.Name, id), func(ctx *sdk.Context, g *ghost, k *skywaykeeper.Keeper) *explore.Fail {
				ok, f := userTx(ctx, k, u, &skywaytypes.MsgCancelSendToRemote{TransactionId: id, Metadata: world.Meta(u)})
				if f == nil && !ok && k == nil {
					// no injected fault: the sender's cancel of its own transfer that waits in the pool has no
					// reason to fail ("refunded in full to its sender" must stay reachable)
					for _, x := range g.X {
						if x.ID == id && x.Place == "pool" && x.Sender == u.Name {
							return explore.Failf("cancel-of-pooled-transfer-refused", "%s cannot cancel its own transfer %d (%d+%d of token %d) that waits in the pool: the coins can never be refunded", u.Name, id, x.Amount, x.Tax, x.Tok)
						}
					}
				}
				if f != nil || !ok {
					return f
				}
				for i := range g.X {
					x := &g.X[i]
					if x.ID != id {
						continue
					}
					if x.Place != "pool" {
						return explore.Failf("cancel-not-pooled", "cancel of transfer %d succeeded while it is %s", id, x.Place)
					}
					if x.Sender != u.Name {
						return explore.Failf("cancel-foreign", "%s cancelled transfer %d of %s", u.Name, id, x.Sender)
					}
					x.Place = "refunded"
					g.UserBal[u.Name][x.Tok] += x.Amount + x.Tax
					return nil
				}
				return explore.Failf("cancel-unknown", "cancel of unknown transfer %d succeeded", id)
			}, true)
		}
	}
	// end-of-block housekeeping
	endBlk := func(ctx *sdk.Context, g *ghost, k *skywaykeeper.Keeper, allowBuild bool) *explore.Fail {
		to := e.timedOut(*ctx)
		w.SkywayEnd(*ctx, k)
		_, f := e.follow(*ctx, g, allowBuild, to, "")
		return f
	}
	add("EndBlk50", func(ctx *sdk.Context, g *ghost, k *skywaykeeper.Keeper) *explore.Fail {
		h := (ctx.BlockHeight()/50 + 1) * 50
		*ctx = world.At(*ctx, h, ctx.BlockTime().Add(time.Second))
		f := endBlk(ctx, g, k, true)
		*ctx = world.At(*ctx, h+1, ctx.BlockTime().Add(time.Second))
		return f
	}, true)
	add("EndBlkLate", func(ctx *sdk.Context, g *ghost, k *skywaykeeper.Keeper) *explore.Fail {
		*ctx = world.At(*ctx, ctx.BlockHeight()+1, ctx.BlockTime().Add(11*time.Minute))
		if ctx.BlockHeight()%50 == 0 {
			*ctx = world.At(*ctx, ctx.BlockHeight()+1, ctx.BlockTime())
		}
		return endBlk(ctx, g, k, false)
	}, true)
	batches, _ := w.App.SkywayKeeper.GetOutgoingTxBatches(n.Ctx)
	for _, b := range batches {
		b := b
		tok := 0
		if strings.EqualFold(b.TokenContract.GetAddress().Hex(), erc20s[1]) {
			tok = 1
		}
		if b.GasEstimate == 0 && !g.AccsOff {
			add(fmt.Sprintf("EstimateQuorum(batch%d)", b.BatchNonce), func(ctx *sdk.Context, g *ghost, k *skywaykeeper.Keeper) *explore.Fail {
				for _, v := range w.Vals {
					res := w.DeliverTx(*ctx, []*world.Actor{v.Actor}, &skywaytypes.MsgEstimateBatchGas{Metadata: world.Meta(v.Actor), Nonce: b.BatchNonce, TokenContract: b.TokenContract.GetAddress().Hex(), EthSigner: v.EthAddr(), Estimate: 21000})
					if !res.OK() && !strings.Contains(res.Err.Error(), "gas estimate already received") {
						return explore.Failf("harness-estimate", "estimate rejected: %v", res.Err)
					}
				}
				return endBlk(ctx, g, k, false)
			}, true)
		}
		add(fmt.Sprintf("ExecutedQuorum(batch%d)", b.BatchNonce), func(ctx *sdk.Context, g *ghost, k *skywaykeeper.Keeper) *explore.Fail {
			g.Skynonce++
			for _, v := range w.Vals {
				res := w.DeliverTx(*ctx, []*world.Actor{v.Actor}, world.BatchExecutedClaim(v, ref, g.Skynonce, 1, b.BatchNonce, b.TokenContract.GetAddress().Hex()))
				if !res.OK() {
					return explore.Failf("harness-claim", "claim rejected: %v", res.Err)
				}
			}
			supBefore := w.Supply(*ctx, e.denoms[tok])
			to := e.timedOut(*ctx)
			w.SkywayEnd(*ctx, k)
			burned := new(big.Int).Sub(supBefore, w.Supply(*ctx, e.denoms[tok])).Int64()
			total, f := e.follow(*ctx, g, false, to, fmt.Sprintf("batch:%d", b.BatchNonce))
			if f != nil {
				return f
			}
			if burned != total {
				return explore.Failf("I3-burn", "attested execution of batch %d burned %d, its transfers total %d", b.BatchNonce, burned, total)
			}
			if k == nil {
				// no injected fault: a batch attested as executed by every validator must be gone (burned)
				left, _ := w.App.SkywayKeeper.GetOutgoingTxBatches(*ctx)
				for _, lb := range left {
					if lb.BatchNonce == b.BatchNonce && lb.TokenContract.GetAddress() == b.TokenContract.GetAddress() {
						return explore.Failf("executed-batch-still-open", "batch %d was attested as executed by all validators and is still open: its transfers are neither burned nor refundable", b.BatchNonce)
					}
				}
			}
			return nil
		}, true)
	}
	// inbound deposit
	for tok := 0; tok < e.ntok; tok++ {
		blocked := w.App.AccountKeeper.GetModuleAddress("mint").String() // a bank-blocked receiver
		for _, rcv := range []string{e.users[0].Addr.String(), "garbage", blocked} {
			tok, rcv := tok, rcv
			name := map[string]string{e.users[0].Addr.String(): "U1", "garbage": "garbage", blocked: "blockedAddr"}[rcv]
			add(fmt.Sprintf("DepositQuorum(t%d,7,%s)", tok+1, name), func(ctx *sdk.Context, g *ghost, k *skywaykeeper.Keeper) *explore.Fail {
				g.Skynonce++
				for _, v := range w.Vals {
					res := w.DeliverTx(*ctx, []*world.Actor{v.Actor}, world.DepositClaim(v, ref, g.Skynonce, 1, erc20s[tok], 7, "0x00000000000000000000000000000000000000bb", rcv))
					if !res.OK() {
						return explore.Failf("harness-claim", "deposit claim rejected: %v", res.Err)
					}
				}
				supBefore := w.Supply(*ctx, e.denoms[tok])
				rcvAddr := e.users[0].Addr
				if a, err := sdk.AccAddressFromBech32(rcv); err == nil {
					rcvAddr = a
				}
				balBefore := w.Balance(*ctx, rcvAddr, e.denoms[tok])
				cpBefore := e.communityPool(*ctx, e.denoms[tok])
				to := e.timedOut(*ctx)
				w.SkywayEnd(*ctx, k)
				minted := new(big.Int).Sub(w.Supply(*ctx, e.denoms[tok]), supBefore).Int64()
				got := new(big.Int).Sub(w.Balance(*ctx, rcvAddr, e.denoms[tok]), balBefore).Int64()
				cp := new(big.Int).Sub(e.communityPool(*ctx, e.denoms[tok]), cpBefore).Int64()
				if minted != 0 && minted != 7 {
					return explore.Failf("I3-deposit", "deposit of 7 minted %d", minted)
				}
				if got+cp != minted {
					return explore.Failf("I3-deposit-dest", "deposit minted %d but receiver got %d and community pool %d", minted, got, cp)
				}
				g.Deposits[tok] += minted
				if rcvAddr.Equals(e.users[0].Addr) {
					g.UserBal["U1"][tok] += got
				}
				_, f := e.follow(*ctx, g, false, to, "")
				return f
			}, true)
		}
	}
	// governance changes the bridge tax of token 1 while transfers are pending: what was escrowed
	// (amount + the tax recorded with the transfer) is what a cancel refunds / an execution burns
	for _, tx := range []struct {
		name, rate string
		exempt     []sdk.AccAddress
	}{
		{"1/2", "1/2", []sdk.AccAddress{e.users[1].Addr}},
		{"0", "0", nil},
		{"1/3,exempt=U1", "1/3", []sdk.AccAddress{e.users[0].Addr}},
	} {
		tx := tx
		cur, _ := w.App.SkywayKeeper.BridgeTax(n.Ctx, e.denoms[0])
		if cur != nil && cur.Rate == tx.rate && len(cur.ExemptAddresses) == len(tx.exempt) && (len(tx.exempt) == 0 || cur.ExemptAddresses[0].Equals(tx.exempt[0])) {
			continue
		}
		add("GovTax(t1,"+tx.name+")", func(ctx *sdk.Context, g *ghost, k *skywaykeeper.Keeper) *explore.Fail {
			must(w.App.SkywayKeeper.SetBridgeTax(*ctx, &skywaytypes.BridgeTax{Token: e.denoms[0], Rate: tx.rate, ExemptAddresses: tx.exempt}))
			return nil
		}, false)
	}
	// natural relayer-selection failure: fee records removed / restored
	if !g.FeesOff {
		add("DropFees", func(ctx *sdk.Context, g *ghost, k *skywaykeeper.Keeper) *explore.Fail {
			for _, v := range w.Vals {
				must(w.App.TreasuryKeeper.SetRelayerFee(*ctx, v.ValAddr, &treasurytypes.RelayerFeeSetting{ValAddress: v.ValAddr.String()}))
			}
			g.FeesOff = true
			return nil
		}, false)
	} else {
		add("RestoreFees", func(ctx *sdk.Context, g *ghost, k *skywaykeeper.Keeper) *explore.Fail {
			for _, v := range w.Vals {
				must(w.SetFee(*ctx, v, ref, "1.0"))
			}
			g.FeesOff = false
			return nil
		}, false)
	}
	// governance binds token 1's denom to another remote contract while transfers of it are pending
	// (pool entries and batches are keyed by the old contract): they must stay refundable / burnable
	if !g.Remapped {
		add("GovRemap(t1)", func(ctx *sdk.Context, g *ghost, k *skywaykeeper.Keeper) *explore.Fail {
			must(w.GovExec(*ctx, &skywaytypes.MsgSetERC20MappingProposal{Authority: w.Gov, Metadata: vtypes.MsgMetadata{Creator: w.Gov, Signers: []string{w.Gov}},
				Mappings: []skywaytypes.MsgSetERC20MappingProposal_ERC20ToDenomMapping{{ChainReferenceId: ref, Erc20: "0x3333333333333333333333333333333333333333", Denom: e.denoms[0]}}}))
			g.Remapped = true
			return nil
		}, false)
	}
	// natural address-lookup failure: after the snapshot was published the validators replaced their
	// external accounts and have none on the bridge's chain (the lookup answers "not found", no error)
	if !g.AccsOff {
		add("DropAccounts", func(ctx *sdk.Context, g *ghost, k *skywaykeeper.Keeper) *explore.Fail {
			for _, v := range w.Vals {
				must(w.RegisterAccounts(*ctx, v, nil, "elsewhere-1"))
			}
			g.AccsOff = true
			return nil
		}, false)
	} else {
		add("RestoreAccounts", func(ctx *sdk.Context, g *ghost, k *skywaykeeper.Keeper) *explore.Fail {
			for _, v := range w.Vals {
				must(w.RegisterAccounts(*ctx, v, nil, ref))
			}
			g.AccsOff = false
			return nil
		}, false)
	}
	return ops
}

var _ = sort.Strings
