package main

// C09 part B — "values that cannot be processed are ... skipped with the rest of
// the block unaffected": exhaustive product of poison evidence kinds × who
// supplies it × where the poisoned message sits relative to a healthy message
// that holds full quorum evidence. The healthy message must be attested by the
// same end-block that attests it when no poison is present (differential
// oracle on two forks of one real application state).

import (
	"encoding/json"
	"fmt"
	"math/big"
	"os"

	codectypes "github.com/cosmos/cosmos-sdk/codec/types"
	sdk "github.com/cosmos/cosmos-sdk/types"
	ethtypes "github.com/ethereum/go-ethereum/core/types"
	ctypes "github.com/palomachain/paloma/v2/x/consensus/types"
	evmtypes "github.com/palomachain/paloma/v2/x/evm/types"
	schedtypes "github.com/palomachain/paloma/v2/x/scheduler/types"
	"github.com/palomachain/paloma/v2/zzverif/report"
	"github.com/palomachain/paloma/v2/zzverif/world"
)

const isoRef = "eth-main"

type poison struct {
	Name  string
	Proof func() *codectypes.Any
}

func anyOf(m interface {
	Reset()
	String() string
	ProtoMessage()
}) *codectypes.Any {
	a, err := codectypes.NewAnyWithValue(m)
	if err != nil {
		panic(err)
	}
	return a
}

func poisons() []poison {
	tx := ethtypes.NewTx(&ethtypes.LegacyTx{Nonce: 1, Gas: 21000, GasPrice: big.NewInt(1), To: nil, Value: big.NewInt(0), Data: []byte{1, 2, 3}})
	raw, _ := tx.MarshalBinary()
	return []poison{
		{"garbage-value", func() *codectypes.Any {
			return &codectypes.Any{TypeUrl: "/palomachain.paloma.evm.SmartContractExecutionErrorProof", Value: []byte{0xff, 0xff, 0xff, 0xff}}
		}},
		{"unknown-type-url", func() *codectypes.Any {
			return &codectypes.Any{TypeUrl: "/does.not.Exist", Value: []byte{1}}
		}},
		{"not-hashable-type", func() *codectypes.Any {
			return anyOf(&sdk.Coin{Denom: "ugrain", Amount: sdk.NewInt64Coin("ugrain", 1).Amount})
		}},
		{"tx-proof-garbage-tx", func() *codectypes.Any {
			return anyOf(&evmtypes.TxExecutedProof{SerializedTX: []byte{0xde, 0xad}})
		}},
		{"tx-proof-undecodable-receipt", func() *codectypes.Any {
			return anyOf(&evmtypes.TxExecutedProof{SerializedTX: raw, SerializedReceipt: []byte{0xde, 0xad}})
		}},
		{"tx-proof-without-receipt", func() *codectypes.Any { return anyOf(&evmtypes.TxExecutedProof{SerializedTX: raw}) }},
		{"wrong-proof-family", func() *codectypes.Any {
			return anyOf(&evmtypes.ValidatorBalancesAttestationRes{BlockHeight: 1, Balances: []string{"1"}})
		}},
		{"reference-block-result", func() *codectypes.Any {
			return anyOf(&evmtypes.ReferenceBlockAttestationRes{BlockHeight: 7, BlockHash: "0xabc"})
		}},
	}
}

// isolation runs the product; it returns the number of cases.
func isolation(r *report.Run) {
	w := world.New(world.Config{Stakes: world.StakesOf(1_000_000, 1_000_000, 1_000_000, 1_000_000), Users: []string{"U1"}, Height: 101, Logger: capLog})
	ctx := w.Root
	if err := w.StdChain(ctx, isoRef); err != nil {
		panic(err)
	}
	u := w.User("U1")
	def, _ := json.Marshal(evmtypes.JobDefinition{Address: "0x00000000000000000000000000000000000000cc", ABI: "[]"})
	pay, _ := json.Marshal(evmtypes.JobPayload{HexPayload: "deadbeef"})
	mustOK := func(res world.TxResult, what string) {
		if !res.OK() {
			panic(fmt.Sprintf("isolation set-up: %s: %v", what, res.Err))
		}
	}
	mustOK(w.DeliverTx(ctx, []*world.Actor{u}, &schedtypes.MsgCreateJob{Job: &schedtypes.Job{ID: "j", Routing: schedtypes.Routing{ChainType: "evm", ChainReferenceID: isoRef}, Definition: def, Payload: pay}, Metadata: world.Meta(u)}), "create job")
	q := world.TurnstoneQueue(isoRef)
	for i := 0; i < 2; i++ {
		mustOK(w.DeliverTx(ctx, []*world.Actor{u}, &schedtypes.MsgExecuteJob{JobID: "j", Metadata: world.Meta(u)}), "execute job")
	}
	for _, m := range w.Queue(ctx, q) {
		for _, v := range w.Vals {
			mustOK(w.DeliverTx(ctx, []*world.Actor{v.Actor}, world.Estimate(v, q, m.GetId(), 21000)), "estimate")
		}
	}
	if err := w.EndBlock(ctx); err != nil {
		panic(err)
	}
	var ids []uint64
	for _, m := range w.Queue(ctx, q) {
		if m.GetGasEstimate() == 0 {
			panic("isolation set-up: estimate not elected")
		}
		ids = append(ids, m.GetId())
		for _, v := range w.Vals {
			mustOK(w.DeliverTx(ctx, []*world.Actor{v.Actor}, w.SignQueued(v, q, m)), "sign")
		}
		mustOK(w.DeliverTx(ctx, []*world.Actor{w.Vals[0].Actor}, &ctypes.MsgSetErrorData{MessageID: m.GetId(), QueueTypeName: q, Data: []byte("reverted"), Metadata: world.Meta(w.Vals[0].Actor)}), "error data")
	}
	if len(ids) != 2 {
		panic(fmt.Sprintf("isolation set-up: %d queued messages", len(ids)))
	}
	// a message in a queue that is processed after the turnstone queue
	if err := w.App.EvmKeeper.ScheduleReferenceBlockForChain(ctx, isoRef); err != nil {
		panic(err)
	}
	rq := "evm/" + isoRef + "/reference-block"
	rmsgs := w.Queue(ctx, rq)
	if len(rmsgs) != 1 {
		panic("isolation set-up: no reference block message")
	}
	rid := rmsgs[0].GetId()

	type target struct {
		Name    string
		Queue   string
		ID      uint64
		Healthy func(v *world.Val) sdk.Msg
	}
	older := target{"older-turnstone", q, ids[0], func(v *world.Val) sdk.Msg {
		return world.Evidence(v, q, ids[0], &evmtypes.SmartContractExecutionErrorProof{ErrorMessage: "reverted"})
	}}
	younger := target{"younger-turnstone", q, ids[1], func(v *world.Val) sdk.Msg {
		return world.Evidence(v, q, ids[1], &evmtypes.SmartContractExecutionErrorProof{ErrorMessage: "reverted"})
	}}
	refblk := target{"reference-block", rq, rid, func(v *world.Val) sdk.Msg {
		return world.Evidence(v, rq, rid, &evmtypes.ReferenceBlockAttestationRes{BlockHeight: 4242, BlockHash: "0x00000000000000000000000000000000000000000000000000000000000abcde"})
	}}
	present := func(c sdk.Context, t target) bool {
		for _, m := range w.Queue(c, t.Queue) {
			if m.GetId() == t.ID {
				return true
			}
		}
		return false
	}
	pairs := [][2]target{{older, younger}, {younger, older}, {older, refblk}, {refblk, older}, {younger, refblk}}
	cases, rejected, blocked := 0, 0, 0
	for _, pr := range pairs {
		poisoned, healthy := pr[0], pr[1]
		// control: healthy message with quorum evidence, no poison
		// NB: a fork reads through to its parent, so a context is never mutated after it has been forked
		pre := world.Fork(ctx)
		for _, v := range w.Vals {
			mustOK(w.DeliverTx(pre, []*world.Actor{v.Actor}, healthy.Healthy(v)), "healthy evidence")
		}
		control := world.Fork(pre)
		base := world.Fork(pre)
		capLog.Reset()
		if err, _ := world.Protect(func() error { return w.EndBlock(control) }); err != nil {
			panic(fmt.Sprintf("isolation control: end-block failed: %v", err))
		}
		if present(control, healthy) {
			panic("isolation control: healthy message with quorum evidence is not attested")
		}
		for _, p := range poisons() {
			for _, who := range []string{"one-validator", "one-validator-others-honest", "all-validators"} {
				c := world.Fork(base)
				n := 1
				if who == "all-validators" {
					n = len(w.Vals)
				}
				accepted := 0
				for _, v := range w.Vals[:n] {
					res := w.DeliverTx(c, []*world.Actor{v.Actor}, &ctypes.MsgAddEvidence{Proof: p.Proof(), MessageID: poisoned.ID, QueueTypeName: poisoned.Queue, Metadata: world.Meta(v.Actor)})
					if res.OK() {
						accepted++
					}
				}
				if who == "one-validator-others-honest" {
					// the other validators report the poisoned message honestly: quorum power is present, one entry cannot be processed
					for _, v := range w.Vals[1:] {
						mustOK(w.DeliverTx(c, []*world.Actor{v.Actor}, poisoned.Healthy(v)), "honest evidence")
					}
				}
				cases++
				r.States++
				r.Transitions += int64(n + 1)
				key := fmt.Sprintf("%s on %s by %s, healthy %s", p.Name, poisoned.Name, who, healthy.Name)
				r.Case("isolation:" + key)
				if accepted == 0 {
					rejected++ // rejected when submitted: fine
					continue
				}
				capLog.Reset()
				err, panicked := world.Protect(func() error { return w.EndBlock(c) })
				if panicked || err != nil {
					r.Violate("abort:evidence:"+p.Name, fmt.Sprintf("end-block fails with %s: %v", key, err), map[string]string{"isolation": key})
					continue
				}
				if os.Getenv("ISO_DEBUG") != "" {
					var qids []uint64
					for _, m := range w.Queue(c, q) {
						qids = append(qids, m.GetId())
					}
					fmt.Fprintf(os.Stderr, "ISO ids=%v poisoned=%d healthy=%d queue-now=%v\n", ids, poisoned.ID, healthy.ID, qids)
					fmt.Fprintf(os.Stderr, "ISO %s accepted=%d healthyPresent=%v poisonedPresent=%v log=%v\n", key, accepted, present(c, healthy), present(c, poisoned), recoveredHits())
				}
				if present(c, healthy) {
					blocked++
					r.Violate("isolation:attestation-blocked-by:"+p.Name, fmt.Sprintf("%s: the healthy message %d (%s), which holds quorum evidence and is attested by the same end-block when the poison is absent, stays unattested — the evidence that cannot be processed is not skipped with the rest of the block unaffected", key, healthy.ID, healthy.Queue), map[string]string{"isolation": key})
				}
			}
		}
	}
	r.Extra["isolation_cases"] = float64(cases)
	r.Extra["isolation_poison_rejected_at_submission"] = float64(rejected)
	r.Extra["isolation_blocked"] = float64(blocked)
	r.Sample(map[string]interface{}{"isolation_case": "tx-proof-undecodable-receipt on older-turnstone by one-validator, healthy younger-turnstone"})
}
