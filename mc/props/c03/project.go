package main

import (
	"bytes"
	"encoding/hex"
	"fmt"
	"sort"
	"strings"

	"cosmossdk.io/store/rootmulti"
	storetypes "cosmossdk.io/store/types"
	sdk "github.com/cosmos/cosmos-sdk/types"
	"github.com/cosmos/gogoproto/proto"
	consensustypes "github.com/palomachain/paloma/v2/x/consensus/types"
	evmtypes "github.com/palomachain/paloma/v2/x/evm/types"
	skywaytypes "github.com/palomachain/paloma/v2/x/skyway/types"
)

// A projection is the set of records of the whole application state, split
// where one stored value holds parts belonging to different principals
// (attestation votes, per-validator parts of a queued consensus message).
// id = store "/" hex(key) [ "#" part ]
type rec struct {
	Store    string
	Key      []byte
	Part     string // "" for a whole stored value
	Val      []byte
	Attr     []byte // bytes searched for identities (parts of split values only)
	explicit bool
	Kind     string
}

func (r *rec) id() string {
	s := r.Store + "/" + hex.EncodeToString(r.Key)
	if r.Part != "" {
		s += "#" + r.Part
	}
	return s
}

type projection map[string]*rec

// stores excluded from the projection, with the reason (listed in the evidence)
var excludedStores = map[string]string{
	"staking":      "validator status / jailing is C13's subject; no paloma message handler writes delegations",
	"slashing":     "jailing state (C13)",
	"distribution": "community pool / rewards: not held in a principal's name",
	"mint":         "no principal",
	"upgrade":      "no principal",
	"capability":   "no principal",
}

func (e *env) storeKeys() map[string]*storetypes.KVStoreKey {
	out := map[string]*storetypes.KVStoreKey{}
	rs, ok := e.w.App.CommitMultiStore().(*rootmulti.Store)
	if !ok {
		panic("commit multistore is not rootmulti")
	}
	for name, k := range rs.StoreKeysByName() {
		if kv, ok := k.(*storetypes.KVStoreKey); ok {
			out[name] = kv
		}
	}
	return out
}

var skywayKinds map[string]string

func initSkywayKinds() {
	skywayKinds = map[string]string{}
	for name, k := range map[string][]byte{
		"eth-address-by-validator":      skywaytypes.EthAddressByValidatorKey,
		"validator-by-eth-address":      skywaytypes.ValidatorByEthAddressKey,
		"attestation":                   skywaytypes.OracleAttestationKey,
		"outgoing-tx-pool":              skywaytypes.OutgoingTXPoolKey,
		"outgoing-tx-batch":             skywaytypes.OutgoingTXBatchKey,
		"batch-confirm":                 skywaytypes.BatchConfirmKey,
		"batch-gas-estimate":            skywaytypes.BatchGasEstimateKey,
		"last-event-nonce-by-validator": skywaytypes.LastEventNonceByValidatorKey,
		"last-observed-event-nonce":     skywaytypes.LastObservedEventNonceKey,
		"last-tx-pool-id":               skywaytypes.KeyLastTXPoolID,
		"last-batch-id":                 skywaytypes.KeyLastOutgoingBatchID,
		"last-observed-eth-height":      skywaytypes.LastObservedEthereumBlockHeightKey,
		"denom-to-erc20":                skywaytypes.DenomToERC20Key,
		"erc20-to-denom":                skywaytypes.ERC20ToDenomKey,
		"replenished-grains":            skywaytypes.ReplenishedGrainRecordsKey,
		"past-eth-signature-checkpoint": skywaytypes.PastEthSignatureCheckpointKey,
		"latest-compass-id":             skywaytypes.LatestCompassIDKey,
	} {
		skywayKinds[string(k)] = name
	}
}

func asciiRun(b []byte) string {
	n := 0
	for n < len(b) && n < 40 {
		c := b[n]
		if (c >= 'a' && c <= 'z') || (c >= 'A' && c <= 'Z') || c == '-' || c == '_' {
			n++
			continue
		}
		break
	}
	return string(b[:n])
}

// known key prefixes per store (longest match wins); anything else falls back
// to the leading ASCII run / first byte of the key.
var knownPrefixes = map[string][]string{
	"evm":             {"smart-contractsid-key", "chain-info", "smart-contract-deployment", "smart-contracts", "latest-smart-contract", "user-smart-contract", "tx-processed"},
	"skyway":          {"bridge-tax", "bridge-transfer-limit", "bridge-transfer-usage", "light-node-sale-contracts"},
	"treasury":        {"relayer-fee", "treasury"},
	"valset":          {"external-chain-info", "grace-period", "keep-alive", "snapshot", "unjailed-snapshot", "IDs", "jail-reasons", "pigeon-requirements"},
	"paloma-store":    {"light-node-client-license", "light-node-client-store", "light-node-client-feegranter", "light-node-client-funders"},
	"palomaconsensus": {"consensus-queue-signing-type-", "generated-ids-consensus-queue-counter", "batching:"},
	"scheduler":       {"jobs"},
	"tokenfactory":    {"creator", "denoms"},
	"metrix":          {"metrics", "history", "messages"},
	"acc":             {"accountNumber"},
}

// kindOf names the record family of a key (store + key prefix).
func kindOf(store string, key []byte) string {
	k := key
	if store == "skyway" {
		for _, lead := range []string{skywaytypes.StoreModulePrefix, ref} {
			if bytes.HasPrefix(k, []byte(lead)) {
				rest := k[len(lead):]
				for p, name := range skywayKinds {
					if bytes.HasPrefix(rest, []byte(p)) {
						return store + "/" + name
					}
				}
			}
		}
	}
	best := ""
	for _, p := range knownPrefixes[store] {
		if bytes.HasPrefix(k, []byte(p)) && len(p) > len(best) {
			best = p
		}
	}
	if best != "" {
		return store + "/" + strings.TrimRight(best, "-:")
	}
	if r := asciiRun(k); len(r) >= 3 {
		return store + "/" + r
	}
	if len(k) > 0 {
		return fmt.Sprintf("%s/0x%02x", store, k[0])
	}
	return store + "/"
}

func (e *env) project(ctx sdk.Context) projection {
	p := projection{}
	cdc := e.w.App.AppCodec()
	names := make([]string, 0, len(e.stores))
	for n := range e.stores {
		names = append(names, n)
	}
	sort.Strings(names)
	for _, name := range names {
		if _, skip := excludedStores[name]; skip {
			continue
		}
		it := ctx.KVStore(e.stores[name]).Iterator(nil, nil)
		for ; it.Valid(); it.Next() {
			key := append([]byte{}, it.Key()...)
			val := append([]byte{}, it.Value()...)
			kind := kindOf(name, key)
			put := func(part string, v, attr []byte, kindSuffix string) {
				r := &rec{Store: name, Key: key, Part: part, Val: v, Attr: attr, Kind: kind + kindSuffix}
				r.explicit = attr != nil
				if attr == nil {
					r.Attr = append(append([]byte{}, key...), v...)
				}
				p[r.id()] = r
			}
			switch {
			case kind == "skyway/attestation":
				var att skywaytypes.Attestation
				if err := cdc.Unmarshal(val, &att); err != nil {
					put("", val, nil, "")
					break
				}
				seen := map[string]int{}
				for _, v := range att.Votes {
					seen[v]++
					put(fmt.Sprintf("vote:%s:%d", v, seen[v]), []byte("vote"), []byte(v), "#vote")
				}
				body := att
				body.Votes = nil
				bz, _ := proto.Marshal(&body)
				// the body carries the first claimant's message: it is the claimant's
				// record (orchestrator, creator); a receiver named inside is only mentioned
				put("body", bz, e.claimantBytes(&att), "#body")
			case name == "palomaconsensus" && strings.HasPrefix(kind, "palomaconsensus/consensus-queue-signing-type"):
				var m consensustypes.QueuedSignedMessageI
				if err := cdc.UnmarshalInterface(val, &m); err != nil {
					put("", val, nil, "")
					break
				}
				q, ok := m.(*consensustypes.QueuedSignedMessage)
				if !ok {
					put("", val, nil, "")
					break
				}
				for _, s := range q.SignData {
					bz, _ := proto.Marshal(s)
					put("sig:"+s.ValAddress.String(), bz, []byte(s.ValAddress), "#signature")
				}
				for i, ev := range q.Evidence {
					bz, _ := proto.Marshal(ev)
					put(fmt.Sprintf("evidence:%s:%d", ev.ValAddress.String(), i), bz, []byte(ev.ValAddress), "#evidence")
				}
				for _, g := range q.GasEstimates {
					bz, _ := proto.Marshal(g)
					put("estimate:"+g.ValAddress.String(), bz, []byte(g.ValAddress), "#gas-estimate")
				}
				if q.PublicAccessData != nil {
					bz, _ := proto.Marshal(q.PublicAccessData)
					put("public-access-data", bz, []byte(q.PublicAccessData.ValAddress), "#public-access-data")
				}
				if q.ErrorData != nil {
					bz, _ := proto.Marshal(q.ErrorData)
					put("error-data", bz, []byte(q.ErrorData.ValAddress), "#error-data")
				}
				body := *q
				body.SignData, body.Evidence, body.GasEstimates, body.PublicAccessData, body.ErrorData = nil, nil, nil, nil, nil
				body.HandledAtBlockHeight = nil // bookkeeping of the delivery report
				bz, _ := proto.Marshal(&body)
				put("body", bz, e.queuedOwnerBytes(q), "#body")
			default:
				put("", val, nil, "")
			}
		}
		it.Close()
	}
	return p
}

func (e *env) claimantBytes(att *skywaytypes.Attestation) []byte {
	var claim skywaytypes.EthereumClaim
	if err := e.w.App.AppCodec().UnpackAny(att.Claim, &claim); err != nil {
		return att.Claim.GetValue()
	}
	out := []byte{}
	switch c := claim.(type) {
	case *skywaytypes.MsgSendToPalomaClaim:
		out = append(out, c.Orchestrator+" "+c.Metadata.Creator...)
	case *skywaytypes.MsgBatchSendToRemoteClaim:
		out = append(out, c.Orchestrator+" "+c.Metadata.Creator...)
	case *skywaytypes.MsgLightNodeSaleClaim:
		out = append(out, c.Orchestrator+" "+c.Metadata.Creator...)
	default:
		return att.Claim.GetValue()
	}
	return out
}

// queuedOwnerBytes returns the bytes of a queued message that name the party on
// whose behalf it was enqueued (the caller of a job / the author of a user
// contract). The assignee (the relayer picked by the chain) is not an owner.
func (e *env) queuedOwnerBytes(q *consensustypes.QueuedSignedMessage) []byte {
	var msg consensustypes.ConsensusMsg
	if err := e.w.App.AppCodec().UnpackAny(q.Msg, &msg); err != nil {
		return []byte{}
	}
	m, ok := msg.(*evmtypes.Message)
	if !ok {
		return []byte{}
	}
	switch a := m.Action.(type) {
	case *evmtypes.Message_SubmitLogicCall:
		out := append([]byte{}, a.SubmitLogicCall.SenderAddress...)
		return append(out, a.SubmitLogicCall.ContractAddress...)
	case *evmtypes.Message_UploadUserSmartContract:
		return append([]byte{}, a.UploadUserSmartContract.SenderAddress...)
	}
	return []byte{}
}

// ---------------------------------------------------------------------------
// attribution

type principal struct {
	*actor
	needles [][]byte // case-sensitive needles
	lower   [][]byte // needles matched against the lower-cased haystack
}

func mkPrincipal(a *actor, extra ...[]byte) *principal {
	p := &principal{actor: a}
	// chain addresses only: an external-chain address inside a record is content
	// (a destination, a token contract, a registered account); every record held in
	// a validator's name carries its operator / account address as well
	p.needles = [][]byte{a.Acc, []byte(a.Acc.String()), []byte(sdk.ValAddress(a.Acc).String())}
	p.needles = append(p.needles, extra...)
	return p
}

func (p *principal) in(hay, hayLower []byte) bool {
	for _, n := range p.needles {
		if len(n) > 0 && bytes.Contains(hay, n) {
			return true
		}
	}
	for _, n := range p.lower {
		if bytes.Contains(hayLower, n) {
			return true
		}
	}
	return false
}

// governance-controlled record families (explicit list; records are attributed
// to G in addition to any principal found by search)
var govKinds = map[string]bool{
	"evm/chain-info":                            true,
	"evm/smart-contract-deployment":             true,
	"evm/smart-contracts":                       true,
	"evm/latest-smart-contract":                 true,
	"skyway/bridge-tax":                         true,
	"skyway/bridge-transfer-limit":              true,
	"skyway/light-node-sale-contracts":          true,
	"skyway/last-observed-event-nonce":          true,
	"skyway/last-observed-eth-height":           true,
	"skyway/latest-compass-id":                  true,
	"skyway/replenished-grains":                 true,
	"skyway/0x01":                               true, // params
	"valset/pigeon-requirements":                true,
	"treasury/treasury":                         true, // community / security fee settings
	"paloma-store/light-node-client-feegranter": true,
	"paloma-store/light-node-client-funders":    true,
	"bank/0x05":                                 true, // bank params
	"acc/0x00":                                  true, // auth params
}

func (e *env) owners(r *rec) map[string]bool {
	out := map[string]bool{}
	lower := bytes.ToLower(r.Attr)
	for _, p := range e.principals {
		if p.in(r.Attr, lower) {
			out[p.Name] = true
		}
	}
	if govKinds[r.Kind] || r.Store == "params" || r.Store == "consensus" || strings.HasSuffix(r.Kind, "/params") || strings.HasSuffix(r.Kind, "/Params") {
		out["G"] = true
	}
	return out
}
