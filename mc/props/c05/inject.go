// C05 part 1 — signing bytes versus what the bridge contract is handed.
//
// For every tuple of the product two things are computed:
//
//	bytes  the real signing bytes (GetBytesToSign after the store round trip,
//	       NewInternalOutgingTxBatch / GetCheckpoint for a batch);
//	key    what is DELIVERED: the calldata of the compass call packed with the
//	       repository's compass ABI from exactly the arguments VerifyAgainstTX
//	       assembles (consensus argument constant), followed by the deployment id
//	       where the scheme hashes it. The packing is validated against the real
//	       VerifyAgainstTX of every action on every tuple that differs from the
//	       base tuple in at most two fields.
//
// Oracle: two tuples with the same signing bytes must have the same key (items
// that deliver different values never share signing bytes; items that deliver the
// same values may).
package main

import (
	"bytes"
	"crypto/sha256"
	"encoding/hex"
	"fmt"
	"math"
	"math/big"
	"runtime"
	"strings"
	"sync"

	sdkmath "cosmossdk.io/math"
	"github.com/cosmos/cosmos-sdk/codec"
	sdk "github.com/cosmos/cosmos-sdk/types"
	"github.com/ethereum/go-ethereum/accounts/abi"
	"github.com/ethereum/go-ethereum/common"
	ethtypes "github.com/ethereum/go-ethereum/core/types"
	consensustypes "github.com/palomachain/paloma/v2/x/consensus/types"
	evmtypes "github.com/palomachain/paloma/v2/x/evm/types"
	skywaytypes "github.com/palomachain/paloma/v2/x/skyway/types"
	"github.com/palomachain/paloma/v2/zzverif/report"
	"github.com/palomachain/paloma/v2/zzverif/world"
)

type action struct {
	Name   string
	Fields []field
	// Eval computes the real signing bytes of the tuple ix (one index per field)
	// and the delivered key (nil: the tuple itself is the key).
	Eval func(ix []int) (signing []byte, delivered []byte, err error)
	// Verify runs the real VerifyAgainstTX of the action on the calldata this
	// check packed for ix (nil error = the delivery side packs the same bytes).
	// skip = the tuple holds an unset value (nil fees / estimate 0), which the
	// delivery side cannot be asked about.
	Verify func(ix []int) (skip bool, err error)
}

type evalOut struct {
	h, key [32]byte
	err    error
}

func keyOf(delivered []byte, lin int) [32]byte {
	if delivered == nil {
		return sha256.Sum256([]byte(fmt.Sprintf("tuple-%d", lin)))
	}
	return sha256.Sum256(delivered)
}

// evalAll computes signing bytes and delivered keys of the given tuples in parallel.
func evalAll(a action, lins []int) []evalOut {
	out := make([]evalOut, len(lins))
	g := runtime.GOMAXPROCS(0)
	if g > 16 {
		g = 16
	}
	var wg sync.WaitGroup
	for k := 0; k < g; k++ {
		wg.Add(1)
		go func(k int) {
			defer wg.Done()
			for j := k; j < len(lins); j += g {
				func() {
					defer func() {
						if p := recover(); p != nil {
							out[j].err = fmt.Errorf("panic: %v", p)
						}
					}()
					b, d, err := a.Eval(a.decode(lins[j]))
					if err == nil && len(b) != 32 {
						err = fmt.Errorf("signing bytes have length %d, want 32", len(b))
					}
					if err != nil {
						out[j].err = err
						return
					}
					copy(out[j].h[:], b)
					out[j].key = keyOf(d, lins[j])
				}()
			}
		}(k)
	}
	wg.Wait()
	return out
}

// deliveredDiff lists the fields in which x and y differ at the level of what is
// delivered: a field whose two values are handed over identically (unset versus
// the default the code substitutes) is left out.
func (a action) deliveredDiff(x, y []int) []string {
	var d []string
	_, ky, err := a.Eval(y)
	for i := range x {
		if x[i] == y[i] {
			continue
		}
		if err == nil && ky != nil {
			z := append([]int{}, y...)
			z[i] = x[i]
			if _, kz, e := a.Eval(z); e == nil && bytes.Equal(kz, ky) {
				continue
			}
		}
		d = append(d, a.Fields[i].Name)
	}
	if len(d) == 0 {
		return a.diff(x, y)
	}
	return d
}

func collisionReplay(a action, x, y []int, hx [32]byte) map[string]interface{} {
	return map[string]interface{}{
		"kind": "injectivity", "action": a.Name, "tuple_a": a.show(x), "tuple_b": a.show(y),
		"index_a": x, "index_b": y, "signing_bytes": hex.EncodeToString(hx[:]),
	}
}

type injStats struct{ tuples, distinctBytes, distinctKeys, shared, collisions, verified, verifySkipped int64 }

func checkInjective(r *report.Run, a action) injStats {
	size := a.size()
	lins := make([]int, size)
	for i := range lins {
		lins[i] = i
	}
	out := evalAll(a, lins)
	seen := make(map[[32]byte]int32, size)
	keys := map[[32]byte]struct{}{} // statistics only; skipped for very large products
	st := injStats{tuples: int64(size)}
	for i := 0; i < size; i++ {
		if out[i].err != nil {
			r.Violate("eval-error:"+a.Name, fmt.Sprintf("%s: signing bytes of %v cannot be computed: %v", a.Name, a.show(a.decode(i)), out[i].err),
				map[string]interface{}{"kind": "eval", "action": a.Name, "index_a": a.decode(i)})
			continue
		}
		if size <= 1_200_000 {
			keys[out[i].key] = struct{}{}
		}
		if j, ok := seen[out[i].h]; ok {
			if out[j].key == out[i].key {
				st.shared++ // same values delivered: sharing the signing bytes is allowed
				continue
			}
			st.collisions++
			if st.collisions > 200 {
				continue // same defect; r.Violate keeps three per signature anyway
			}
			x, y := a.decode(int(j)), a.decode(i)
			d := a.deliveredDiff(x, y)
			r.Violate("not-injective:"+a.Name+":"+strings.Join(d, "+"),
				fmt.Sprintf("%s: two messages that deliver different values (they differ in {%s}) have the same signing bytes %x\n A = %v\n B = %v", a.Name, strings.Join(d, ", "), out[i].h[:], a.show(x), a.show(y)),
				collisionReplay(a, x, y, out[i].h))
			continue
		}
		seen[out[i].h] = int32(i)
		if i == size/3 || i == size-1 {
			r.Sample(map[string]interface{}{"action": a.Name, "tuple": a.show(a.decode(i)), "signing_bytes": hex.EncodeToString(out[i].h[:])})
		}
	}
	st.distinctBytes, st.distinctKeys = int64(len(seen)), int64(len(keys))
	// delivery-side validation of the keys
	if a.Verify != nil {
		base := make([]int, len(a.Fields))
		for i, f := range a.Fields {
			if f.N > 1 {
				base[i] = 1
			}
		}
		for lin := 0; lin < size; lin++ {
			ix := a.decode(lin)
			dev := 0
			for i := range ix {
				if ix[i] != base[i] {
					dev++
				}
			}
			if dev > 2 {
				continue
			}
			var skip bool
			var err error
			func() {
				defer func() {
					if p := recover(); p != nil {
						err = fmt.Errorf("panic: %v", p)
					}
				}()
				skip, err = a.Verify(ix)
			}()
			if skip {
				st.verifySkipped++
				continue
			}
			st.verified++
			if err != nil {
				r.Violate("harness:delivered-key:"+a.Name, fmt.Sprintf("%s: VerifyAgainstTX does not accept the calldata this check packs for %v: %v", a.Name, a.show(ix), err),
					map[string]interface{}{"kind": "eval", "action": a.Name, "index_a": ix})
			}
		}
	}
	return st
}

// checkPooled puts the sub-product {first two values of every field} of all
// action types into one set: signing bytes of different action types must differ.
func checkPooled(r *report.Run, acts []action) (n, distinct int64) {
	type origin struct {
		a   int
		lin int
	}
	seen := map[[32]byte]origin{}
	for ai, a := range acts {
		var lins []int
		size := a.size()
		for lin := 0; lin < size; lin++ {
			ok := true
			for _, v := range a.decode(lin) {
				if v > 1 {
					ok = false
					break
				}
			}
			if ok {
				lins = append(lins, lin)
			}
		}
		out := evalAll(a, lins)
		for i, lin := range lins {
			if out[i].err != nil {
				continue // reported by checkInjective
			}
			n++
			if o, ok := seen[out[i].h]; ok {
				if o.a != ai {
					b := acts[o.a]
					r.Violate("cross-action:"+b.Name+"/"+a.Name,
						fmt.Sprintf("a %s and a %s have the same signing bytes %x\n A = %v\n B = %v", b.Name, a.Name, out[i].h[:], b.show(b.decode(o.lin)), a.show(a.decode(lin))),
						map[string]interface{}{"kind": "cross-action", "action_a": b.Name, "action_b": a.Name, "index_a": b.decode(o.lin), "index_b": a.decode(lin)})
				}
				continue
			}
			seen[out[i].h] = origin{ai, lin}
		}
	}
	return n, int64(len(seen))
}

// ---------------------------------------------------------------------------
// the delivery side

type delivery struct {
	ctx     sdk.Context
	abi     abi.ABI
	compass *evmtypes.SmartContract
	valset  *evmtypes.Valset
	sign    []*consensustypes.SignData
	cons    evmtypes.CompassConsensus
}

func newDelivery(ctx sdk.Context) *delivery {
	js := world.CompassABI()
	parsed, err := abi.JSON(strings.NewReader(js))
	must(err)
	d := &delivery{ctx: ctx, abi: parsed, compass: &evmtypes.SmartContract{Id: 1, AbiJSON: js, Bytecode: []byte{0x60, 0x80}}}
	signer := "0x00000000000000000000000000000000000000A1"
	d.valset = &evmtypes.Valset{Validators: []string{signer}, Powers: []uint64{1 << 32}, ValsetID: 1}
	d.sign = []*consensustypes.SignData{{ValAddress: sdk.ValAddress(rep(0x44, 20)), Signature: rep(0x01, 65), ExternalAccountAddress: signer, PublicKey: rep(0x02, 20)}}
	d.cons = evmtypes.BuildCompassConsensus(d.valset, d.sign)
	return d
}

const (
	defaultFee = 100_000 // feesOrDefault
	defaultGas = 300_000 // UpdateValset / CompassHandover hashers, batch checkpoint
)

func pad32(b []byte) [32]byte { return [32]byte(append(rep(0, 32-len(b)), b...)) }

func ts32(id string) []byte {
	var b [32]byte
	copy(b[:], id)
	return b[:]
}

// feeArgs: what is handed over as fee_args. An unset fee object is never
// relayed (fees are attached together with the estimate election, and the
// relaying query withholds messages without an estimate); by the convention
// stated in feesOrDefault pigeon would use the defaults, so unset shares the
// class of the default triple.
func feeArgs(f *evmtypes.Fees, payer []byte) (evmtypes.FeeArgs, bool) {
	unset := f == nil
	if unset {
		f = &evmtypes.Fees{RelayerFee: defaultFee, CommunityFee: defaultFee, SecurityFee: defaultFee}
	}
	return evmtypes.FeeArgs{
		RelayerFee: new(big.Int).SetUint64(f.RelayerFee), CommunityFee: new(big.Int).SetUint64(f.CommunityFee), SecurityFee: new(big.Int).SetUint64(f.SecurityFee),
		FeePayerPalomaAddress: pad32(payer),
	}, unset
}

func gasArg(g uint64) (*big.Int, bool) {
	if g == 0 { // not elected: never relayed (filters.HasGasEstimate); shares the class of the fallback
		return new(big.Int).SetUint64(defaultGas), true
	}
	return new(big.Int).SetUint64(g), false
}

// calldata packs the compass call for m exactly as VerifyAgainstTX does.
func (d *delivery) calldata(m *evmtypes.Message, id, gas uint64) (data []byte, unset bool, err error) {
	relayer := common.HexToAddress(m.AssigneeRemoteAddress)
	switch a := m.Action.(type) {
	case *evmtypes.Message_SubmitLogicCall:
		s := a.SubmitLogicCall
		fa, u := feeArgs(s.Fees, s.SenderAddress)
		data, err = d.abi.Pack("submit_logic_call", d.cons,
			evmtypes.CompassLogicCallArgs{LogicContractAddress: common.HexToAddress(s.HexContractAddress), Payload: s.Payload},
			fa, new(big.Int).SetInt64(int64(id)), new(big.Int).SetInt64(s.Deadline), relayer)
		return data, u, err
	case *evmtypes.Message_UploadUserSmartContract:
		s := a.UploadUserSmartContract
		fa, u := feeArgs(s.Fees, s.SenderAddress)
		data, err = d.abi.Pack("deploy_contract", d.cons, common.HexToAddress(s.DeployerAddress), s.Bytecode,
			fa, new(big.Int).SetInt64(int64(id)), new(big.Int).SetInt64(s.Deadline), relayer)
		return data, u, err
	case *evmtypes.Message_UpdateValset:
		g, u := gasArg(gas)
		data, err = d.abi.Pack("update_valset", d.cons, evmtypes.TransformValsetToCompassValset(a.UpdateValset.Valset), relayer, g)
		return data, u, err
	case *evmtypes.Message_CompassHandover:
		g, u := gasArg(gas)
		args := []evmtypes.CompassLogicCallArgs{}
		for _, fc := range a.CompassHandover.ForwardCallArgs {
			args = append(args, evmtypes.CompassLogicCallArgs{LogicContractAddress: common.HexToAddress(fc.HexContractAddress), Payload: fc.Payload})
		}
		data, err = d.abi.Pack("compass_update_batch", d.cons, args, new(big.Int).SetInt64(a.CompassHandover.Deadline), g, relayer)
		return data, u, err
	}
	return nil, false, fmt.Errorf("no compass call for %T", m.Action)
}

// verify hands the packed calldata to the real VerifyAgainstTX of the action.
func (d *delivery) verify(m *evmtypes.Message, id, gas uint64) (skip bool, err error) {
	data, unset, err := d.calldata(m, id, gas)
	if err != nil {
		return false, err
	}
	if unset {
		return true, nil
	}
	tx := ethtypes.NewTx(&ethtypes.LegacyTx{Data: data})
	q := &consensustypes.QueuedSignedMessage{Id: id, GasEstimate: gas, SignData: d.sign}
	switch a := m.Action.(type) {
	case *evmtypes.Message_SubmitLogicCall:
		return false, a.SubmitLogicCall.VerifyAgainstTX(d.ctx, tx, q, d.valset, d.compass, m.AssigneeRemoteAddress)
	case *evmtypes.Message_UploadUserSmartContract:
		return false, a.UploadUserSmartContract.VerifyAgainstTX(d.ctx, tx, q, d.valset, d.compass, m.AssigneeRemoteAddress)
	case *evmtypes.Message_UpdateValset:
		return false, a.UpdateValset.VerifyAgainstTX(d.ctx, tx, q, d.valset, d.compass, m.AssigneeRemoteAddress)
	case *evmtypes.Message_CompassHandover:
		return false, a.CompassHandover.VerifyAgainstTX(d.ctx, tx, q, d.valset, d.compass, m.AssigneeRemoteAddress)
	}
	return false, fmt.Errorf("no VerifyAgainstTX for %T", m.Action)
}

// ---------------------------------------------------------------------------
// alphabets and actions

var extMismatch int64
var extMu sync.Mutex

type feeVal struct {
	set     bool
	r, c, s uint64
}

func (f feeVal) fees() *evmtypes.Fees {
	if !f.set {
		return nil
	}
	return &evmtypes.Fees{RelayerFee: f.r, CommunityFee: f.c, SecurityFee: f.s}
}

func (f feeVal) String() string {
	if !f.set {
		return "unset(nil)"
	}
	return fmt.Sprintf("(relayer %d, community %d, security %d)", f.r, f.c, f.s)
}

func actions(cdc codec.Codec, d *delivery, thorough bool) []action {
	addrs := pick(thorough,
		[]string{"0x0000000000000000000000000000000000000001", "0xFFfFfFffFFfffFFfFFfFFFFFffFFFffffFfFFFfF", "0x5A3E98aA540B2C3545120Ff8CA5C3B6a5D7Cf1e5"},
		"0x0100000000000000000000000000000000000000")
	relayers := pick(thorough,
		[]string{"0x0000000000000000000000000000000000000002", "0xFFfFfFffFFfffFFfFFfFFFFFffFFFffffFfFFFfE", "0x28E9e9bfedEd29747FCc33ccA25b4B75f05E434B"},
		"0x0000000000000000000000000000000000000001")
	word1 := append(rep(0, 31), 1)
	payloads := pick(thorough,
		[][]byte{{}, {0xa9, 0x05, 0x9c, 0xbb}, word1},
		append(append([]byte{}, word1...), word1...))
	// Fees (optional, defaulted): unset (nil) first, then every triple over
	// {present-but-zero, default-1, default, default+1} (thorough: 1 and 2^64-1 on the
	// axes and the diagonal too).
	feeUnits := []uint64{0, defaultFee - 1, defaultFee, defaultFee + 1}
	feeVals := []feeVal{{}}
	for _, a := range feeUnits {
		for _, b := range feeUnits {
			for _, c := range feeUnits {
				feeVals = append(feeVals, feeVal{true, a, b, c})
			}
		}
	}
	if thorough {
		m, dflt := uint64(math.MaxUint64), uint64(defaultFee)
		feeVals = append(feeVals, feeVal{true, 1, 1, 1}, feeVal{true, m, m, m},
			feeVal{true, 1, dflt, dflt}, feeVal{true, dflt, 1, dflt}, feeVal{true, dflt, dflt, 1},
			feeVal{true, m, 0, 0}, feeVal{true, 0, m, 0}, feeVal{true, 0, 0, m})
	}
	feeField := field{Name: "fees", N: len(feeVals), Show: func(i int) string { return feeVals[i].String() }}
	// Fee payer = SenderAddress, raw account bytes (20-byte key accounts, 32-byte
	// contract / module-derived accounts) that both the hashers and
	// VerifyAgainstTX left-pad with zeroes to bytes32; the contract is handed all
	// 32 bytes. P32 ends in the 20-byte payer p20 (differs from the padded p20 in
	// its first 12 bytes only); P32last / P32first differ from P32 only in the
	// last / first 12 bytes.
	p20 := rep(0x11, 20)
	p32 := append(rep(0xaa, 12), p20...)
	p32last := append(append(rep(0xaa, 12), rep(0x11, 8)...), rep(0xbb, 12)...)
	p32first := append(rep(0xcc, 12), p20...)
	payers := pick(thorough,
		[][]byte{p20, append(rep(0x11, 19), 0x12), p32, p32last, p32first},
		[]byte{})
	mustDistinctPadded(payers)
	ids := pick(thorough, []uint64{1, 256, 1 << 63}, math.MaxUint64)
	// deadlines are int64 in the messages and uint256 on the wire: zero and negative values (packed as
	// two's complement) are deliverable values like any other and must stay bound
	deadlines := pick(thorough, []int64{1, math.MaxInt64, 0, -1}, 1_700_000_600, -2, math.MinInt64)
	turnstones := pick(thorough,
		[]string{world.CompassID, "verif-compass-2", "0123456789abcdef0123456789abcdef"},
		"")
	// Gas estimate (defaulted): unset (0), fallback-1, fallback, fallback+1, 2^64-1.
	gases := pick(thorough, []uint64{0, defaultGas - 1, defaultGas, defaultGas + 1, math.MaxUint64}, 1, 21_000)
	valsetIDs := []uint64{1, 2, 1 << 63}
	powers := pick(thorough, []uint64{1, 1 << 32}, 0)
	bytecodes := pick(thorough,
		[][]byte{{0x60, 0x80}, {}, append([]byte{0x60, 0x80}, be64(1)...)},
		rep(0xfe, 33))
	slcContracts := addrs[:3]
	if !thorough {
		slcContracts = addrs[:2]
	}

	withTS := func(data []byte, ts string) []byte { return append(append([]byte{}, data...), ts32(ts)...) }
	// turnstone wires a message builder into Eval / Verify.
	turnstone := func(name string, fields []field, hashesTS bool, mk func(ix []int) (*evmtypes.Message, uint64, uint64)) action {
		return action{Name: name, Fields: fields,
			Eval: func(ix []int) ([]byte, []byte, error) {
				m, id, gas := mk(ix)
				b, err := turnstoneBytes(cdc, m, id, gas)
				if err != nil {
					return nil, nil, err
				}
				data, _, err := d.calldata(m, id, gas)
				if err != nil {
					return nil, nil, err
				}
				if hashesTS {
					data = withTS(data, m.TurnstoneID)
				}
				return b, data, nil
			},
			Verify: func(ix []int) (bool, error) {
				m, id, gas := mk(ix)
				return d.verify(m, id, gas)
			},
		}
	}

	var acts []action

	// ---- SubmitLogicCall: contract, payload, fees, fee payer, message id, deadline, relayer, turnstone id
	acts = append(acts, turnstone("SubmitLogicCall",
		[]field{
			scalar("contract", slcContracts, showAddr), scalar("payload", payloads, showBytes), feeField,
			scalar("fee_payer", payers, showBytes), scalar("message_id", ids, showU64), scalar("deadline", deadlines, showI64),
			scalar("relayer", relayers, showAddr), scalar("turnstone_id", turnstones, showStr),
		}, true,
		func(ix []int) (*evmtypes.Message, uint64, uint64) {
			m := baseMessage(turnstones[ix[7]], relayers[ix[6]])
			m.Action = &evmtypes.Message_SubmitLogicCall{SubmitLogicCall: &evmtypes.SubmitLogicCall{
				HexContractAddress: slcContracts[ix[0]], Abi: []byte("[]"), Payload: payloads[ix[1]],
				Deadline: deadlines[ix[5]], SenderAddress: payers[ix[3]], Fees: feeVals[ix[2]].fees(),
			}}
			return m, ids[ix[4]], 21_000
		}))

	// ---- UpdateValset: each validator, each power, valset id, relayer, gas estimate, turnstone id
	vseq := seqs(len(addrs), 0, 3)
	pseq := seqs(len(powers), 0, 3)
	acts = append(acts, turnstone("UpdateValset",
		[]field{
			listField("validators", vseq, func(i int) string { return addrs[i] }),
			listField("powers", pseq, func(i int) string { return showU64(powers[i]) }),
			scalar("valset_id", valsetIDs, showU64), scalar("relayer", relayers, showAddr),
			scalar("gas_estimate", gases, showU64), scalar("turnstone_id", turnstones, showStr),
		}, true,
		func(ix []int) (*evmtypes.Message, uint64, uint64) {
			m := baseMessage(turnstones[ix[5]], relayers[ix[3]])
			vs := &evmtypes.Valset{ValsetID: valsetIDs[ix[2]]}
			for _, v := range vseq[ix[0]] {
				vs.Validators = append(vs.Validators, addrs[v])
			}
			for _, p := range pseq[ix[1]] {
				vs.Powers = append(vs.Powers, powers[p])
			}
			m.Action = &evmtypes.Message_UpdateValset{UpdateValset: &evmtypes.UpdateValset{Valset: vs}}
			return m, 7, gases[ix[4]]
		}))

	// ---- CompassHandover: each forward call (address, payload), deadline, relayer, gas estimate
	fcAddrs, fcPayloads := addrs[:3], payloads[:3]
	nElem := len(fcAddrs) * len(fcPayloads)
	fseq := seqs(nElem, 0, 3)
	acts = append(acts, turnstone("CompassHandover",
		[]field{
			listField("forward_calls", fseq, func(i int) string {
				return "(" + fcAddrs[i/len(fcPayloads)] + "," + showBytes(fcPayloads[i%len(fcPayloads)]) + ")"
			}),
			scalar("deadline", deadlines, showI64), scalar("relayer", relayers, showAddr), scalar("gas_estimate", gases, showU64),
		}, false,
		func(ix []int) (*evmtypes.Message, uint64, uint64) {
			m := baseMessage(world.CompassID, relayers[ix[2]])
			h := &evmtypes.CompassHandover{Deadline: deadlines[ix[1]], Id: 3}
			for _, e := range fseq[ix[0]] {
				h.ForwardCallArgs = append(h.ForwardCallArgs, evmtypes.CompassHandover_ForwardCallArgs{
					HexContractAddress: fcAddrs[e/len(fcPayloads)], Payload: fcPayloads[e%len(fcPayloads)],
				})
			}
			m.Action = &evmtypes.Message_CompassHandover{CompassHandover: h}
			return m, 7, gases[ix[3]]
		}))

	// ---- UploadUserSmartContract: deployer, bytecode, fees, fee payer, message id, deadline, relayer, turnstone id
	uuDeployers := slcContracts
	acts = append(acts, turnstone("UploadUserSmartContract",
		[]field{
			scalar("deployer", uuDeployers, showAddr), scalar("bytecode", bytecodes, showBytes), feeField,
			scalar("fee_payer", payers, showBytes), scalar("message_id", ids, showU64), scalar("deadline", deadlines, showI64),
			scalar("relayer", relayers, showAddr), scalar("turnstone_id", turnstones, showStr),
		}, true,
		func(ix []int) (*evmtypes.Message, uint64, uint64) {
			m := baseMessage(turnstones[ix[7]], relayers[ix[6]])
			m.Action = &evmtypes.Message_UploadUserSmartContract{UploadUserSmartContract: &evmtypes.UploadUserSmartContract{
				DeployerAddress: uuDeployers[ix[0]], Bytecode: bytecodes[ix[1]], Deadline: deadlines[ix[5]], SenderAddress: payers[ix[3]],
				BlockHeight: 101, Id: 5, Fees: feeVals[ix[2]].fees(),
			}}
			return m, ids[ix[4]], 21_000
		}))

	// ---- UploadSmartContract: bytecode, message id. The scheme is
	// keccak(bytecode ++ be64(id)); the alphabet holds byte strings that are
	// prefixes / extensions of each other by exactly such 8-byte words. A plain
	// creation transaction: the tuple itself is the key.
	uscCodes := [][]byte{
		{0x60, 0x80}, {}, be64(1), append([]byte{0x60, 0x80}, be64(1)...), append(append([]byte{0x60, 0x80}, be64(1)...), be64(1)...),
		append([]byte{0x60, 0x80}, be64(256)...), append([]byte{0x60, 0x80}, 0, 0, 0, 0), {0x60, 0x80, 0}, {0x60}, rep(0, 8), rep(0, 16), rep(0xfe, 33),
	}
	uscIDs := []uint64{1, 2, 256, 1 << 56, 0x6080 << 48, 1 << 63, math.MaxUint64, 0x0000000100000000}
	acts = append(acts, action{
		Name:   "UploadSmartContract",
		Fields: []field{scalar("bytecode", uscCodes, showBytes), scalar("message_id", uscIDs, showU64)},
		Eval: func(ix []int) ([]byte, []byte, error) {
			m := baseMessage(world.CompassID, relayers[0])
			m.Action = &evmtypes.Message_UploadSmartContract{UploadSmartContract: &evmtypes.UploadSmartContract{
				Bytecode: uscCodes[ix[0]], Abi: "[]", ConstructorInput: []byte{1, 2, 3}, Id: 9,
			}}
			b, err := turnstoneBytes(cdc, m, uscIDs[ix[1]], 0)
			return b, nil, err
		},
	})

	// ---- skyway batch: token, each receiver, each amount, nonce, turnstone id, timeout, relayer, gas estimate.
	// Delivered = submit_batch(consensus, token, (receiver[], amount[]), batch_id, deadline, relayer, gas_estimate)
	// of the compass ABI (pigeon's call; the chain has no VerifyAgainstTX for batches).
	recv := addrs[:2]
	amounts := pick(thorough,
		[]sdkmath.Int{sdkmath.NewInt(1), sdkmath.NewIntFromBigInt(new(big.Int).Sub(new(big.Int).Lsh(big.NewInt(1), 256), big.NewInt(1)))},
		sdkmath.NewIntFromUint64(1<<63))
	nTx := len(recv) * len(amounts)
	tseq := seqs(nTx, 0, 3)
	nonces := []uint64{1, 2, 1 << 63}
	timeouts := pick(thorough, []uint64{1, 1 << 63}, 1_700_000_600)
	batchTokens := slcContracts
	batchTS := turnstones
	if !thorough {
		batchTS = turnstones[:2]
	}
	acts = append(acts, action{
		Name: "SkywayBatch",
		Fields: []field{
			scalar("token", batchTokens, showAddr),
			listField("transfers(receiver,amount)", tseq, func(i int) string {
				return "(" + recv[i/len(amounts)] + "," + showInt(amounts[i%len(amounts)]) + ")"
			}),
			scalar("batch_nonce", nonces, showU64), scalar("turnstone_id", batchTS, showStr), scalar("timeout", timeouts, showU64),
			scalar("relayer", relayers, showAddr), scalar("gas_estimate", gases, showU64),
		},
		Eval: func(ix []int) ([]byte, []byte, error) {
			token, err := skywaytypes.NewEthAddress(batchTokens[ix[0]])
			if err != nil {
				return nil, nil, err
			}
			var txs []*skywaytypes.InternalOutgoingTransferTx
			args := struct {
				Receiver []common.Address
				Amount   []*big.Int
			}{[]common.Address{}, []*big.Int{}}
			for k, e := range tseq[ix[1]] {
				dest, err := skywaytypes.NewEthAddress(recv[e/len(amounts)])
				if err != nil {
					return nil, nil, err
				}
				tok, err := skywaytypes.NewInternalERC20Token(amounts[e%len(amounts)], batchTokens[ix[0]], chainRefs[0])
				if err != nil {
					return nil, nil, err
				}
				txs = append(txs, &skywaytypes.InternalOutgoingTransferTx{
					Id: uint64(k + 1), Sender: sdk.AccAddress(rep(0x33, 20)), DestAddress: dest, Erc20Token: tok, BridgeTaxAmount: sdkmath.ZeroInt(),
				})
				args.Receiver = append(args.Receiver, common.HexToAddress(recv[e/len(amounts)]))
				args.Amount = append(args.Amount, amounts[e%len(amounts)].BigInt())
			}
			rel, err := skywaytypes.NewEthAddress(relayers[ix[5]])
			if err != nil {
				return nil, nil, err
			}
			// exactly what BuildOutgoingTXBatch / UpdateBatchGasEstimate do
			b, err := skywaytypes.NewInternalOutgingTxBatch(nonces[ix[2]], timeouts[ix[4]], txs, *token, 101, chainRefs[0],
				batchTS[ix[3]], "palomavaloper1verif", rel, gases[ix[6]])
			if err != nil {
				return nil, nil, err
			}
			// what ConfirmBatch / evidence checks recompute from the stored (external) batch
			ext := b.ToExternal()
			again, err := ext.GetCheckpoint(batchTS[ix[3]])
			if err != nil || !bytes.Equal(again, b.BytesToSign) {
				extMu.Lock()
				extMismatch++
				extMu.Unlock()
			}
			g, _ := gasArg(gases[ix[6]])
			data, err := d.abi.Pack("submit_batch", d.cons, common.HexToAddress(batchTokens[ix[0]]), args,
				new(big.Int).SetUint64(nonces[ix[2]]), new(big.Int).SetUint64(timeouts[ix[4]]), common.HexToAddress(relayers[ix[5]]), g)
			if err != nil {
				return nil, nil, err
			}
			return b.BytesToSign, withTS(data, batchTS[ix[3]]), nil
		},
	})
	return acts
}
