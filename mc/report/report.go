// Package report writes evidence files, replay files and handles the
// committed known-findings list. Every check ends through Finish().
package report

import (
	"crypto/sha256"
	"encoding/hex"
	"encoding/json"
	"fmt"
	"os"
	"path/filepath"
	"sort"
	"strconv"
	"strings"
	"time"
)

func VerifDir() string {
	if d := os.Getenv("VERIF_DIR"); d != "" {
		return d
	}
	return "/verif"
}

// Violation is one failing case. Signature identifies the defect class
// (property, op kind, call site / field ...) for known-findings matching;
// Replay holds everything needed to re-execute it.
type Violation struct {
	Property  string      `json:"property"`
	Signature string      `json:"signature"`
	Message   string      `json:"message"`
	Replay    interface{} `json:"replay"`
}

type Finding struct {
	Property  string `json:"property"`
	Status    string `json:"status"` // open | fixed
	Signature string `json:"signature"`
	Commit    string `json:"commit,omitempty"`
	What      string `json:"what"`
}

type findingsFile struct {
	Findings []Finding `json:"findings"`
}

func LoadFindings() []Finding {
	b, err := os.ReadFile(filepath.Join(VerifDir(), "known_findings.json"))
	if err != nil {
		return nil
	}
	var f findingsFile
	if err := json.Unmarshal(b, &f); err != nil {
		fmt.Fprintln(os.Stderr, "known_findings.json unreadable:", err)
		os.Exit(2)
	}
	return f.Findings
}

// Run collects what a check did.
type Run struct {
	Property string
	Level    string // exploration | fault_enumeration | model_checking
	Tier     string
	Seed     int64
	start    time.Time

	// model checking counters
	States      int64
	Transitions int64
	// exploration counters
	Evaluations int64
	Distinct    map[string]struct{} // distinct non-trivial case keys (hashed)
	DistinctN   int64               // alternative: directly counted
	Rule        string
	Samples     []interface{}
	Exhaustive  bool
	Caps        []string
	Extra       map[string]interface{}
	Assumptions []string
	Violations  []Violation
	maxSamples  int
}

func Tier() string {
	t := os.Getenv("VERIF_TIER")
	if t == "" {
		t = "quick"
	}
	return t
}

func Seed() int64 {
	s, _ := strconv.ParseInt(os.Getenv("VERIF_SEED"), 10, 64)
	return s
}

func New(property, level string) *Run {
	return &Run{Property: property, Level: level, Tier: Tier(), Seed: Seed(), start: time.Now(),
		Distinct: map[string]struct{}{}, Extra: map[string]interface{}{}, Exhaustive: true, maxSamples: 6}
}

func (r *Run) Thorough() bool { return r.Tier == "thorough" }

// Deadline returns the internal deadline for this tier (never an oracle: hitting
// it ends the run with exhaustive=false and exit 0).
func (r *Run) Deadline(quick, thorough time.Duration) time.Time {
	if s, err := strconv.Atoi(os.Getenv("VERIF_DEADLINE_S")); err == nil && s > 0 {
		return r.start.Add(time.Duration(s) * time.Second) // experiments only
	}
	if r.Thorough() {
		return r.start.Add(thorough)
	}
	return r.start.Add(quick)
}

func (r *Run) Sample(s interface{}) {
	if len(r.Samples) < r.maxSamples {
		r.Samples = append(r.Samples, s)
	}
}

// Case counts one evaluation; key!="" marks it as non-trivial & distinct by key.
func (r *Run) Case(key string) {
	r.Evaluations++
	if key != "" {
		h := sha256.Sum256([]byte(key))
		var k [12]byte
		copy(k[:], h[:12])
		r.Distinct[string(k[:])] = struct{}{}
	}
}

func (r *Run) Cap(s string) {
	r.Exhaustive = false
	for _, c := range r.Caps {
		if c == s {
			return
		}
	}
	r.Caps = append(r.Caps, s)
}

func (r *Run) Violate(sig, msg string, replay interface{}) {
	// keep at most 3 violations per signature
	n := 0
	for _, v := range r.Violations {
		if v.Signature == sig {
			n++
		}
	}
	if n >= 3 {
		return
	}
	r.Violations = append(r.Violations, Violation{Property: r.Property, Signature: sig, Message: msg, Replay: replay})
}

// Finish writes evidence, replays, prints VIOLATION / KNOWN-FINDING lines and
// returns the process exit code.
func (r *Run) Finish() int {
	dir := VerifDir()
	findings := LoadFindings()
	open := map[string]Finding{}
	for _, f := range findings {
		if f.Property == r.Property && f.Status == "open" {
			open[f.Signature] = f
		}
	}
	exit := 0
	knownPrinted := map[string]bool{}
	nviol := 0
	for _, v := range r.Violations {
		if f, ok := open[v.Signature]; ok {
			if !knownPrinted[v.Signature] {
				fmt.Printf("KNOWN-FINDING: property=%s %s [%s]\n", r.Property, f.What, v.Signature)
				knownPrinted[v.Signature] = true
			}
			continue
		}
		nviol++
		b, _ := json.MarshalIndent(v, "", " ")
		h := sha256.Sum256(b)
		p := filepath.Join(dir, "replays", fmt.Sprintf("%s-%s.json", r.Property, hex.EncodeToString(h[:6])))
		_ = os.MkdirAll(filepath.Dir(p), 0o755)
		_ = os.WriteFile(p, b, 0o644)
		fmt.Printf("VIOLATION property=%s replay=%s\n", r.Property, p)
		fmt.Printf("  signature: %s\n  %s\n", v.Signature, strings.ReplaceAll(v.Message, "\n", "\n  "))
		exit = 1
	}
	cov := map[string]interface{}{}
	for k, v := range r.Extra {
		cov[k] = v
	}
	distinct := int64(len(r.Distinct)) + r.DistinctN
	cov["evaluations"] = r.Evaluations
	cov["distinct_nontrivial"] = distinct
	cov["rule"] = r.Rule
	cov["samples"] = r.Samples
	cov["exhaustive"] = r.Exhaustive
	if len(r.Caps) > 0 {
		sort.Strings(r.Caps)
		cov["caps_hit"] = r.Caps
	}
	if r.Level == "model_checking" {
		cov["states"] = r.States
		if distinct == 0 {
			cov["distinct_nontrivial"] = r.States
		}
		cov["transitions"] = r.Transitions
		// every explored transition is a call of the real handler: model == implementation
		cov["traces_validated_against_impl"] = r.Transitions
		if r.Evaluations == 0 {
			cov["evaluations"] = r.Transitions
		}
	}
	if len(knownPrinted) > 0 {
		ks := []string{}
		for k := range knownPrinted {
			ks = append(ks, k)
		}
		sort.Strings(ks)
		cov["known_findings_observed"] = ks
	}
	if r.Samples == nil {
		cov["samples"] = []interface{}{}
	}
	ev := map[string]interface{}{
		"property_id": r.Property,
		"tier":        r.Tier,
		"seed":        r.Seed,
		"level":       r.Level,
		"coverage":    cov,
		"assumptions": r.Assumptions,
		"wall_s":      time.Since(r.start).Seconds(),
		"violations":  nviol,
	}
	if r.Assumptions == nil {
		ev["assumptions"] = []string{}
	}
	b, _ := json.MarshalIndent(ev, "", " ")
	_ = os.MkdirAll(filepath.Join(dir, "evidence"), 0o755)
	if err := os.WriteFile(filepath.Join(dir, "evidence", r.Property+".json"), b, 0o644); err != nil {
		fmt.Fprintln(os.Stderr, "cannot write evidence:", err)
		return 2
	}
	fmt.Printf("%s %s: level=%s states=%d transitions=%d evaluations=%d distinct=%d exhaustive=%v violations=%d known=%d wall=%.1fs\n",
		r.Property, r.Tier, r.Level, r.States, r.Transitions, cov["evaluations"], distinct, r.Exhaustive, nviol, len(knownPrinted), time.Since(r.start).Seconds())
	return exit
}

// ---------------------------------------------------------------------------
// process-level parallelism: the check binary re-executes itself once per
// shard (GOMAXPROCS=1 each); workers serialise their Run, the parent merges.

type wire struct {
	States, Transitions, Evaluations, DistinctN int64
	Distinct                                    []string
	Samples                                     []interface{}
	Exhaustive                                  bool
	Caps                                        []string
	Extra                                       map[string]interface{}
	Violations                                  []Violation
	Rule                                        string
	Assumptions                                 []string
}

// Shard returns (index, count) for this process; (0,1) when not a worker.
func Shard() (int, int) {
	s := os.Getenv("VERIF_WORKER")
	if s == "" {
		return 0, 1
	}
	var i, n int
	fmt.Sscanf(s, "%d/%d", &i, &n)
	return i, n
}

func IsWorker() bool { return os.Getenv("VERIF_WORKER") != "" }

// WorkerFinish serialises the run for the parent.
func (r *Run) WorkerFinish() int {
	w := wire{States: r.States, Transitions: r.Transitions, Evaluations: r.Evaluations, DistinctN: r.DistinctN,
		Samples: r.Samples, Exhaustive: r.Exhaustive, Caps: r.Caps, Extra: r.Extra, Violations: r.Violations,
		Rule: r.Rule, Assumptions: r.Assumptions}
	for k := range r.Distinct {
		w.Distinct = append(w.Distinct, hex.EncodeToString([]byte(k)))
	}
	b, err := json.Marshal(w)
	if err != nil {
		fmt.Fprintln(os.Stderr, "worker marshal:", err)
		return 2
	}
	if err := os.WriteFile(os.Getenv("VERIF_WORKER_OUT"), b, 0o644); err != nil {
		fmt.Fprintln(os.Stderr, "worker write:", err)
		return 2
	}
	return 0
}

func (r *Run) merge(w wire) {
	if r.Rule == "" {
		r.Rule = w.Rule
	}
	if r.Assumptions == nil {
		r.Assumptions = w.Assumptions
	}
	r.States += w.States
	r.Transitions += w.Transitions
	r.Evaluations += w.Evaluations
	r.DistinctN += w.DistinctN
	for _, k := range w.Distinct {
		b, _ := hex.DecodeString(k)
		r.Distinct[string(b)] = struct{}{}
	}
	for _, s := range w.Samples {
		if len(r.Samples) < 12 {
			r.Samples = append(r.Samples, s)
		}
	}
	if !w.Exhaustive {
		r.Exhaustive = false
	}
	for _, c := range w.Caps {
		r.Cap(c)
	}
	for k, v := range w.Extra {
		if f, ok := v.(float64); ok {
			if old, ok := r.Extra[k].(float64); ok {
				r.Extra[k] = old + f
				continue
			}
			if _, exists := r.Extra[k]; !exists {
				r.Extra[k] = f
				continue
			}
		}
		if _, exists := r.Extra[k]; !exists {
			r.Extra[k] = v
		}
	}
	for _, v := range w.Violations {
		r.Violate(v.Signature, v.Message, v.Replay)
	}
}
