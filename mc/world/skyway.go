package world

import (
	"encoding/hex"

	sdkmath "cosmossdk.io/math"
	sdk "github.com/cosmos/cosmos-sdk/types"
	ethcrypto "github.com/ethereum/go-ethereum/crypto"
	"github.com/palomachain/paloma/v2/util/libcons"
	"github.com/palomachain/paloma/v2/x/skyway"
	skywaykeeper "github.com/palomachain/paloma/v2/x/skyway/keeper"
	skywaytypes "github.com/palomachain/paloma/v2/x/skyway/types"
)

// ConsensusChecker builds the checker exactly as app.New does.
func (w *World) ConsensusChecker() *libcons.ConsensusChecker {
	return libcons.New(w.App.ValsetKeeper.GetCurrentSnapshot, w.App.AppCodec())
}

// SkywayEnd runs the exported skyway end-blocker with keeper k (the app's own
// keeper when k is nil).
func (w *World) SkywayEnd(ctx sdk.Context, k *skywaykeeper.Keeper) {
	kk := w.App.SkywayKeeper
	if k != nil {
		kk = *k
	}
	skyway.EndBlocker(ctx, kk, w.ConsensusChecker())
}

// DepositClaim is validator v's vote for a remote deposit event.
func DepositClaim(v *Val, ref string, skywayNonce, ethHeight uint64, erc20 string, amount int64, ethSender, receiver string) *skywaytypes.MsgSendToPalomaClaim {
	return &skywaytypes.MsgSendToPalomaClaim{
		EventNonce:       skywayNonce,
		EthBlockHeight:   ethHeight,
		TokenContract:    erc20,
		Amount:           sdkmath.NewInt(amount),
		EthereumSender:   ethSender,
		PalomaReceiver:   receiver,
		Orchestrator:     v.Addr.String(),
		ChainReferenceId: ref,
		Metadata:         Meta(v.Actor),
		SkywayNonce:      skywayNonce,
		CompassId:        CompassID,
	}
}

// BatchExecutedClaim is validator v's vote that a batch was executed remotely.
func BatchExecutedClaim(v *Val, ref string, skywayNonce, ethHeight, batchNonce uint64, erc20 string) *skywaytypes.MsgBatchSendToRemoteClaim {
	return &skywaytypes.MsgBatchSendToRemoteClaim{
		EventNonce:       skywayNonce,
		EthBlockHeight:   ethHeight,
		BatchNonce:       batchNonce,
		TokenContract:    erc20,
		ChainReferenceId: ref,
		Orchestrator:     v.Addr.String(),
		Metadata:         Meta(v.Actor),
		SkywayNonce:      skywayNonce,
		CompassId:        CompassID,
	}
}

// SignCheckpoint signs a skyway checkpoint with v's eth key in the format
// ValidateEthereumSignature expects ("\x19Ethereum Signed Message:\n32" prefix).
func SignCheckpoint(v *Val, checkpoint []byte) string {
	digest := ethcrypto.Keccak256Hash(append([]byte("\x19Ethereum Signed Message:\n32"), checkpoint...)).Bytes()
	sig, err := ethcrypto.Sign(digest, v.Eth)
	if err != nil {
		panic(err)
	}
	return hex.EncodeToString(sig)
}
