package time

// Added by /verif (C08): wall-clock skew in seconds applied by Now().
var VerifSkewSeconds int64
