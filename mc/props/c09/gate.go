package main

// C09 part C — the version gate is the only deliberate stop, and it stops only
// nodes running software OLDER than the upgrade governance has completed.
// Exhaustive product of (running version, completed upgrade) pairs through the
// real upgrade keeper (ApplyUpgrade marks the plan done) and the real
// paloma keeper's CheckChainVersion (what the paloma BeginBlock calls).

import (
	"context"
	"fmt"

	upgradetypes "cosmossdk.io/x/upgrade/types"
	"github.com/cosmos/cosmos-sdk/types/module"
	"github.com/palomachain/paloma/v2/zzverif/report"
	"github.com/palomachain/paloma/v2/zzverif/world"
	"golang.org/x/mod/semver"
)

func versionGate(r *report.Run) {
	w := world.New(world.Config{Stakes: world.StakesOf(1_000_000), Users: []string{"U1"}, Height: 101, Logger: capLog})
	vers := []string{"v5.1.6", "v5.1.7", "v5.1.9", "v5.1.10", "v5.1.23", "v5.1.100", "v5.1.5", "v5.1.0", "v5.0.60", "v5.2.0", "v5.10.0", "v6.0.0", "v4.9.9"}
	govs := append([]string{}, vers...)
	govs = append(govs, "5.1.6", "5.1.10") // plan names without the v prefix
	cases, stops := 0, 0
	for gi, g := range govs {
		ctx := world.Fork(w.Root)
		name := g
		w.App.UpgradeKeeper.SetUpgradeHandler(name, func(_ context.Context, _ upgradetypes.Plan, vm module.VersionMap) (module.VersionMap, error) {
			return vm, nil
		})
		if err, _ := world.Protect(func() error {
			return w.App.UpgradeKeeper.ApplyUpgrade(ctx, upgradetypes.Plan{Name: name, Height: ctx.BlockHeight()})
		}); err != nil {
			panic(fmt.Sprintf("version gate set-up: ApplyUpgrade(%s): %v", name, err))
		}
		if n, h, err := w.App.UpgradeKeeper.GetLastCompletedUpgrade(ctx); err != nil || n != name || h == 0 {
			panic(fmt.Sprintf("version gate set-up: last completed upgrade is %q at %d (%v), want %q", n, h, err, name))
		}
		gv := g
		if gv[0] != 'v' {
			gv = "v" + gv
		}
		for _, a := range vers {
			k := w.App.PalomaKeeper
			k.AppVersion = a
			c := world.Fork(ctx)
			_, panicked := world.Protect(func() error { k.CheckChainVersion(c); return nil })
			cases++
			r.States++
			r.Transitions++
			r.Case(fmt.Sprintf("gate:%s/%s", a, g))
			if panicked {
				stops++
			}
			sameLine := semver.Compare(semver.MajorMinor(a), semver.MajorMinor(gv)) == 0
			switch {
			case sameLine && semver.Compare(a, gv) >= 0 && panicked:
				r.Violate("gate:stops-up-to-date-node", fmt.Sprintf("a node running %s is stopped although governance completed %s (same release line, not older)", a, g), map[string]string{"gate": a + "/" + g})
			case semver.Compare(a, gv) < 0 && !panicked:
				r.Violate("gate:lets-outdated-node-run", fmt.Sprintf("a node running %s keeps running although governance completed %s", a, g), map[string]string{"gate": a + "/" + g})
			}
		}
		_ = gi
	}
	r.Extra["version_gate_cases"] = float64(cases)
	r.Extra["version_gate_stops"] = float64(stops)
}
