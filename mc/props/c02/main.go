// C02 — oracle safety: a remote-chain claim takes effect only after >66% of the
// current voting power voted for that identical claim (every validator counted
// once), at most one claim per nonce between governance resets, in consecutive
// nonce order, effect applied exactly once.
//
// Explicit-state BFS over the REAL skyway handlers on forked application state:
// votes are really signed transactions (ante + router), Tally / CatchUp are the
// exported skyway.EndBlocker, Override is MsgNonceOverrideProposal through the
// router as x/gov would execute it, Power rewrites the staking module's
// last-validator-power / last-total-power through the staking keeper. A ghost
// model keeps, per claim, the SET of distinct validators whose vote transaction
// succeeded, and the reset epoch; the oracle runs after every step.
package main

import (
	"crypto/sha256"
	"encoding/hex"
	"encoding/json"
	"flag"
	"fmt"
	"math/big"
	"os"
	"runtime"
	"runtime/debug"
	"sort"
	"strconv"
	"strings"
	"time"

	sdkmath "cosmossdk.io/math"
	sdk "github.com/cosmos/cosmos-sdk/types"
	authcodec "github.com/cosmos/cosmos-sdk/x/auth/codec"
	chainparams "github.com/palomachain/paloma/v2/app/params"
	"github.com/palomachain/paloma/v2/util/eventbus"
	evmtypes "github.com/palomachain/paloma/v2/x/evm/types"
	skywaykeeper "github.com/palomachain/paloma/v2/x/skyway/keeper"
	skywaytypes "github.com/palomachain/paloma/v2/x/skyway/types"
	"github.com/palomachain/paloma/v2/zzverif/explore"
	"github.com/palomachain/paloma/v2/zzverif/report"
	"github.com/palomachain/paloma/v2/zzverif/world"
)

const (
	ref       = "eth-main"
	erc20Reg  = "0x1111111111111111111111111111111111111111" // registered bridge token
	erc20Unk  = "0x3333333333333333333333333333333333333333" // never registered
	ethSender = "0x00000000000000000000000000000000000000bb"
	baseH     = 101 // every step runs at this height except CatchUp (150)
)

// ---------------------------------------------------------------------------
// stake distributions and the worker table

type dist struct {
	Name    string
	Powers  []int64
	Compass bool // deployment scenario: claim variants by compass id + ActivateCompass (no Power/Override/CatchUp)
	Legacy  bool // start with the chain ACTIVE but no latest compass id on record (see setup)
	// claim-variant scenario: competing deposits at one nonce that differ only in the spelling of the free-form
	// receiver, and deposits at the next nonce with a remote block height below / equal to / above the recorded one
	Variants bool
	Registry bool // token-registry scenario (registry.go)
}

var dists = []dist{
	{"34-33-33", []int64{34, 33, 33}, false, false, false, false},
	{"50-30-20", []int64{50, 30, 20}, false, false, false, false},
	{"1-1-1", []int64{1, 1, 1}, false, false, false, false},
	{"67-33", []int64{67, 33}, false, false, false, false},
	{"25-25-25-25", []int64{25, 25, 25, 25}, false, false, false, false},
	{"34-33-33/compass", []int64{34, 33, 33}, true, false, false, false},
	{"34-33-33/compass-legacy", []int64{34, 33, 33}, true, true, false, false},
	{"67-33/claim-variants", []int64{67, 33}, false, false, true, false},
	{"67-33/token-registry", []int64{67, 33}, false, false, false, true},
}

// plan: which distributions run, how many worker processes each gets, depth.
type planItem struct {
	Dist, Workers, Depth int
	Unreg                bool // add claim cU (deposit of an unregistered token) to the alphabet
}

func plan() []planItem {
	if only := os.Getenv("C02_ONLY"); only != "" { // debugging: one distribution
		i, _ := strconv.Atoi(only)
		d, _ := strconv.Atoi(os.Getenv("C02_DEPTH"))
		if d == 0 {
			d = 6
		}
		n, _ := strconv.Atoi(os.Getenv("C02_WORKERS"))
		if n == 0 {
			n = 1
		}
		return []planItem{{i, n, d, os.Getenv("C02_UNREG") != ""}}
	}
	if report.Tier() == "thorough" {
		return scale([]planItem{{0, 5, 7, false}, {5, 1, 6, false}, {6, 1, 6, false}, {7, 1, 8, false}, {8, 1, 7, false}, {1, 2, 6, true}, {2, 1, 6, true}, {3, 1, 7, true}, {4, 3, 6, false}})
	}
	return scale([]planItem{{0, 6, 6, false}, {5, 1, 5, false}, {6, 1, 6, false}, {7, 1, 6, false}, {8, 1, 6, false}, {1, 5, 6, false}, {2, 1, 5, false}})
}

// scale fits the plan (laid out for 16 worker processes) to report.Workers():
// every search keeps at least one process; with fewer processes than searches
// the last searches are dropped and reported as a cap.
var dropped []string

func scale(items []planItem) []planItem {
	w := report.Workers()
	if w >= 16 {
		return items
	}
	if w < len(items) {
		for _, it := range items[w:] {
			dropped = append(dropped, dists[it.Dist].Name)
		}
		items = items[:w]
	}
	total := 0
	for i := range items {
		n := items[i].Workers * w / 16
		if n < 1 {
			n = 1
		}
		items[i].Workers = n
		total += n
	}
	for i := 0; total > w; i = (i + 1) % len(items) { // rounding up the small ones may overshoot
		if items[i].Workers > 1 {
			items[i].Workers--
			total--
		}
	}
	for total < w { // leftovers go to the largest search
		items[0].Workers++
		total++
	}
	return items
}

type slot struct {
	Dist, Sub, NSub, Depth int
	Unreg                  bool
	Replay                 bool
}

func slots() []slot {
	var out []slot
	depthCap, _ := strconv.Atoi(os.Getenv("C02_DEPTHCAP")) // debugging / mutation runs
	for _, p := range plan() {
		if depthCap > 0 && p.Depth > depthCap {
			p.Depth = depthCap
		}
		for s := 0; s < p.Workers; s++ {
			out = append(out, slot{p.Dist, s, p.Workers, p.Depth, p.Unreg, false})
		}
	}
	return out
}

// ---------------------------------------------------------------------------
// claims

type claimDef struct {
	Compass string // compass (bridge deployment) id the claim carries
	Height  uint64 // remote block height the claim reports
	Pays    bool   // deposit whose receiver string decodes to the receiver account (otherwise: community pool)
	Body    string // canonical rendering of every field of the claim except voter and metadata
	Name    string
	Kind    string // deposit | deposit-unregistered | batch
	Nonce   uint64
	Amount  int64
	Build   func(v *world.Val) sdk.Msg
	Hash    string
}

// ---------------------------------------------------------------------------
// ghost

type ghost struct {
	Voters      []uint8  // per claim: bitmask of validators whose vote tx for this claim succeeded (all epochs)
	Obs         []bool   // per claim: has been seen Observed
	Cursor      uint64   // expected last observed nonce
	EpochNonces []uint64 // nonces observed since the last governance reset
	Epoch       int      `json:"-"` // number of resets so far (only the current epoch's data decide the future)
	Minted      int64    // deposits that must have reached the receiver
	Burned      int64    // vouchers that must have been burned by the executed batch
	BatchDone   bool
	// partial-order reduction (see ops): index+1 of the validator whose power was
	// changed last since the latest tally (0 = none pending); after an override.
	PowerPending  int
	AfterOverride bool
	// bridge deployment: id on record (set by the last activation; "" = none), the one before, activations so far
	Deploy, Prev string
	NAct         int
	// effects: Eff[c] = 1 once claim c's effect has been accounted for (at observation, or before it: see post);
	// Pooled = deposits that must have gone to the community pool (receiver string does not decode)
	Eff    []uint8
	Pooled int64
	// remote block height recorded by the last observed claim (the keeper refuses to lower it)
	LastHeight  uint64
	EpochHeight uint64 // the same, but only over claims observed since the last reset
	refused     string // transient: claim refused by the height rule in the last step
	refusedKind string
}

func (g *ghost) Clone() explore.Ghost {
	return &ghost{Voters: append([]uint8{}, g.Voters...), Obs: append([]bool{}, g.Obs...), Cursor: g.Cursor,
		EpochNonces: append([]uint64{}, g.EpochNonces...), Epoch: g.Epoch, Minted: g.Minted, Burned: g.Burned, BatchDone: g.BatchDone,
		PowerPending: g.PowerPending, AfterOverride: g.AfterOverride, Deploy: g.Deploy, Prev: g.Prev, NAct: g.NAct,
		Eff: append([]uint8{}, g.Eff...), Pooled: g.Pooled, LastHeight: g.LastHeight, EpochHeight: g.EpochHeight}
}

func (g *ghost) Key() string { b, _ := json.Marshal(g); return string(b) }

// ---------------------------------------------------------------------------

type env struct {
	w          *world.World
	r          *report.Run
	d          dist
	sl         slot
	claims     []*claimDef
	byBody     map[string]int
	valIdx     map[string]int
	denom      string
	rcv        *world.Actor
	batchNonce uint64
	batchTotal int64
	bal0       *big.Int
	sup0       *big.Int
	esc0       *big.Int
	shardDepth int
	txCache    map[string]sdk.Tx
	abi        string
	// states deeper than keepDepth drop their store overlay and are rebuilt from these ancestors (see ops)
	keepDepth  int
	anchors    map[string]*explore.Node
	rebuilding bool
	rebuilt    int
	hashed     int
	maxHeap    uint64
}

func main() {
	replay := flag.String("replay", "", "replay file")
	flag.Parse()
	n := len(slots())
	if *replay != "" {
		n = 1
	}
	report.Main("C02", "model_checking", n, func(r *report.Run, shard, nshards int) { run(r, shard, nshards, *replay) })
}

func must(err error) {
	if err != nil {
		panic(err)
	}
}

func run(r *report.Run, shard, nshards int, replayFile string) {
	// the search allocates many short-lived store overlays: collect less often, within a per-process budget
	debug.SetGCPercent(200)
	debug.SetMemoryLimit(2 << 30)
	sl := slots()[shard]
	var path []string
	var rep report.Violation
	if replayFile != "" {
		b, err := os.ReadFile(replayFile)
		if err == nil {
			err = json.Unmarshal(b, &rep)
		}
		if err != nil {
			fmt.Fprintln(os.Stderr, err)
			os.Exit(2)
		}
		m := rep.Replay.(map[string]interface{})
		for _, p := range m["path"].([]interface{}) {
			path = append(path, p.(string))
		}
		found := false
		for i, d := range dists {
			if d.Name == m["scenario"] {
				sl = slot{Dist: i, Sub: 0, NSub: 1, Depth: len(path), Unreg: true, Replay: true}
				found = true
			}
		}
		if !found {
			fmt.Fprintln(os.Stderr, "unknown scenario in replay file:", m["scenario"])
			os.Exit(2)
		}
	}
	if dists[sl.Dist].Registry {
		describe(r)
		var rp *report.Violation
		if replayFile != "" {
			rp = &rep
		}
		runRegistry(r, sl, path, rp)
		return
	}
	e := setup(r, sl)
	// shard late: all workers of a distribution search identically down to depth-2 (cheap: the last two levels hold
	// ~95% of the transitions), which keeps the overlap between the workers' private visited sets small
	if e.shardDepth = sl.Depth - 2; e.shardDepth < 1 {
		e.shardDepth = 1
	}
	if sd, _ := strconv.Atoi(os.Getenv("C02_SHARDDEPTH")); sd > 0 {
		e.shardDepth = sd
	}
	if r.Thorough() && sl.Depth >= 6 && replayFile == "" {
		e.keepDepth = sl.Depth - 3
	}
	if kd, _ := strconv.Atoi(os.Getenv("C02_KEEPDEPTH")); kd > 0 {
		e.keepDepth = kd
	}

	describe(r)
	spec := explore.Spec{
		Name:       e.d.Name,
		Init:       []*explore.Node{{Ctx: e.w.Root, Ghost: e.ghost0()}},
		Ops:        e.ops,
		Hash:       e.hash,
		MaxDepth:   sl.Depth,
		Deadline:   deadline(r),
		ShardDepth: e.shardDepth, Shard: sl.Sub, NShards: sl.NSub,
	}
	if replayFile != "" {
		if f := explore.Replay(spec, path); f != nil {
			r.Violate(f.Signature, f.Message, rep.Replay)
		}
		r.States, r.Transitions = int64(len(path))+1, int64(len(path))
		r.Sample(path)
		return
	}
	t0 := time.Now()
	res := explore.Run(r, spec)
	if os.Getenv("C02_VERBOSE") != "" {
		fmt.Fprintf(os.Stderr, "c02 worker %s %d/%d: depth %d/%d states=%d transitions=%d capped=%v %.1fs heap=%dMB rebuilt=%d\n", e.d.Name, sl.Sub, sl.NSub, res.DepthCompleted, sl.Depth, res.States, res.Transitions, res.Capped, time.Since(t0).Seconds(), e.maxHeap>>20, e.rebuilt)
	}
	r.Extra["states_re_executed_for_determinism_and_memory"] = float64(e.rebuilt)
	if shard == 0 {
		for _, d := range dropped {
			r.Cap("search " + d + " not run: fewer worker processes than searches")
		}
	}
	if sl.Sub == 0 {
		r.Extra["depth_completed:"+e.d.Name] = float64(res.DepthCompleted)
		r.Extra["depth_bound:"+e.d.Name] = float64(sl.Depth)
	}
}

func describe(r *report.Run) {
	r.Rule = "BFS over Vote(v,claim) (really signed MsgSendToPalomaClaim / MsgBatchSendToRemoteClaim txs through ante + router) for competing claims cA,cB (deposits of 7 / 9, same nonce 1), cX (batch-executed, nonce 1), cC (deposit, nonce 2) [thorough, except 34-33-33 and 25-25-25-25: + cU, deposit of an unregistered token, nonce 1]; Tally (skyway.EndBlocker); CatchUp (skyway.EndBlocker at height 150 => UpdateValidatorNoncesToLatest); Power(v,p) p in {0, p0, 2*p0} (staking last-validator-power + last-total-power); Override(k) k in {last-1,last,last+1} (MsgNonceOverrideProposal by the gov authority); one search per stake distribution (quick: 34-33-33 and 50-30-20 to depth 6, 1-1-1 to depth 5; thorough: 34-33-33 and 67-33 depth 7, 50-30-20 / 1-1-1 / 25-25-25-25 depth 6); plus two bridge-deployment searches on 34-33-33 (quick depth 5 / 6, thorough 6): deposits D1 (nonce 1), D2 (nonce 2), each votable with the compass id on record, with none, and with another id (the previous deployment's, or a never deployed one), Tally, and ActivateCompass = EvmKeeper.ActivateChainReferenceID with a higher contract id and a new unique id (publishes eventbus.EVMActivatedChain: latest compass id recorded, cursor and validator nonces reset; at most 1 activation per history quick, 2 thorough), started from the standard state (compass id on record) and from a state with the chain ACTIVE and no compass id on record; plus a claim-variant search on 67-33 (quick depth 6, thorough 8): at nonce 1 the genuine deposit G (remote height 100) and three claims differing from it only in the spelling of the free-form receiver (one letter upper-cased, all upper-case, trailing blank), at nonce 2 deposits reporting remote height 90 / 100 / 110, Tally (any number of further end-blocks), Override(0); plus a token-registry search on 67-33 (quick depth 6, thorough 7): GovMap(denom in {uold,unew}, contract in {A,B}) = MsgSetERC20MappingProposal through the router, at most 3 per history, in every order and interleaving with votes for deposits of A and of B (nonces 1, 2) and Tally; reference registry = last mapping wins per denom (forward index) and per contract (reverse index), as this tree defines it; in every state the forward index equals the reference and every contract whose binding is in force (contract -> denom and denom -> contract) resolves to its denom; an observed deposit of such a contract pays the receiver exactly once in that denom; a state is distinct by (skyway store, last powers, ghost voter sets / observed set / epoch cursor / deployment id / accounted effects); stored claims are identified by their full body, never by the claim hash; oracle after every step: every vote entry of a newly Observed claim belongs to a validator that submitted exactly that body; a newly Observed claim carries the compass id of the current deployment whenever one is on record; each newly Observed claim has distinct-voter power*100 > 66*total, is the only one at its nonce in this reset epoch and sits at cursor+1; cursor moves only by observation / reset; receiver balance, supply, escrow and batch deletion equal the observed claims' effects applied exactly once; Observed never reverts; a rejected vote leaves the skyway store byte-identical"
	r.Assumptions = []string{
		"a validator 'has voted for a claim' once a vote transaction of it for that claim hash succeeded, in any reset epoch (weakest reading: earlier votes keep counting after a reset, but only once per validator)",
		"every successful MsgNonceOverrideProposal starts a new reset epoch, also when it writes the value the cursor already has (weakest reading: fewer constraints)",
		"power = staking LastValidatorPower / LastTotalPower at the moment of the tally, written through the staking keeper; validator status is not changed (a power-0 validator stays bonded and may still vote)",
		"the explored code reads the block height only modulo 50; every step runs at height 101, CatchUp at 150",
		"all claims carry the same remote block height; duplicate vote entries are not flagged by themselves, only an observation whose distinct voters hold <= 66%",
		"tx atomicity re-implemented as in baseapp.runTx (ante cache, msg cache)",
		"remote-height rule: the keeper refuses to lower the recorded remote block height; on this tree a claim that holds a quorum at cursor+1 but reports a lower height has the cursor written and is then dropped (TryAttestation returns after setLastObservedSkywayNonce; no Observed flag, no effect, the end-blocker has no cache context). Honest validators cannot report decreasing heights for increasing nonces of one deployment and 'exactly once whenever it can be applied at all' exempts claims the chain refuses, so this is accepted like 'handler failed, oracle progresses': the nonce counts as consumed, zero effect is not an alarm; it is counted (nonces_consumed_by_claims_refused_for_lower_remote_height, refused:*) and sampled. Still checked there: no effect for a refused or below-quorum claim, at most one effect per claim over any number of later end-blocks, consecutive order among the claims that take effect, cursor moves only by observation, refusal of a quorum claim, or reset",
		"effects are accounted per claim body, once: normally when the claim becomes Observed; if receiver balance / supply show the effect of a deposit that holds a quorum of identical votes at cursor+1 before its Observed flag is set, it is accounted then (weakest reading) and any further application is an alarm",
		"a compass activation is a reset: new epoch, cursor 0; votes cast before it keep counting for the identical claim (weakest reading), but a claim of another or no deployment must not become Observed while a deployment id is on record",
		"'chain ACTIVE, no latest compass id on record' is not reachable from genesis on this tree (genesis chains are inactive until ActivateChainReferenceID, which publishes the recording event); it stands for a chain activated under a binary that did not record compass ids and is produced without store writes by removing the skyway eventbus subscription during the initial activation and re-subscribing (NewKeeper over the same store). UnobservedBlocksByAddr (a query for relayers) is not explored",
		"partial-order reduction: Power(v,p) writes only staking last powers, which only the tally reads (Attest, the claim handlers and overrideNonce never read them), so power changes are explored only directly before a Tally/CatchUp, in ascending validator order, one per validator; Override directly after Override is skipped (same state as the second alone). Depth counts every step including Power",
	}
}

func deadline(r *report.Run) time.Time {
	if s, _ := strconv.Atoi(os.Getenv("C02_DEADLINE")); s > 0 { // debugging
		return r.Deadline(time.Duration(s)*time.Second, time.Duration(s)*time.Second)
	}
	return r.Deadline(100*time.Second, 23*time.Minute)
}

func setup(r *report.Run, sl slot) *env {
	d := dists[sl.Dist]
	var stakes []int64
	for _, p := range d.Powers {
		stakes = append(stakes, p*1_000_000)
	}
	w := world.New(world.Config{Stakes: world.StakesOf(stakes...), Users: []string{"adm", "U1", "R"}, Height: baseH})
	ctx := w.Root
	if d.Legacy {
		// A chain that is ACTIVE while skyway has no latest compass id on record is not reachable from genesis
		// with this tree (genesis chains are inactive until ActivateChainReferenceID, which publishes the
		// event that records the id); it is the state of a chain activated under a binary that did not record
		// compass ids yet. It is produced here without writing the store: the skyway subscription is removed
		// while the chain is activated and restored by constructing the skyway keeper again over the same store
		// (NewKeeper subscribes under the same name).
		eventbus.EVMActivatedChain().Unsubscribe("skyway-keeper")
	}
	must(w.StdChain(ctx, ref))
	if d.Legacy {
		a := w.App
		_ = skywaykeeper.NewKeeper(a.AppCodec(), a.AccountKeeper, a.StakingKeeper, a.BankKeeper, a.SlashingKeeper,
			a.DistrKeeper, a.TransferKeeper, a.EvmKeeper, a.ConsensusKeeper, a.PalomaKeeper, a.TokenFactoryKeeper,
			skywaykeeper.NewSkywayStoreGetter(a.GetKey(skywaytypes.StoreKey)), w.Gov, authcodec.NewBech32Codec(chainparams.ValidatorAddressPrefix))
	}
	if got, want := w.App.SkywayKeeper.GetLatestCompassID(ctx, ref), map[bool]string{false: world.CompassID, true: ""}[d.Legacy]; got != want {
		panic(fmt.Sprintf("setup: latest compass id %q, want %q", got, want))
	}
	if names := w.App.EvmKeeper.GetActiveChainNames(ctx); len(names) != 1 || names[0] != ref {
		panic(fmt.Sprintf("setup: active chains %v", names))
	}
	e := &env{w: w, r: r, d: d, sl: sl, byBody: map[string]int{}, valIdx: map[string]int{}, rcv: w.User("R"), shardDepth: 2, txCache: map[string]sdk.Tx{}, anchors: map[string]*explore.Node{}, keepDepth: sl.Depth, abi: world.CompassABI()}
	denom, err := w.BridgeToken(ctx, w.User("adm"), "t1", ref, erc20Reg, 1000, w.User("U1"))
	must(err)
	e.denom = denom
	// one outgoing transfer and the periodic batch build, so that a batch-executed claim has a batch to execute
	res := w.DeliverTx(ctx, []*world.Actor{w.User("U1")}, &skywaytypes.MsgSendToRemote{EthDest: "0x00000000000000000000000000000000000000aa",
		Amount: sdk.NewInt64Coin(denom, 10), ChainReferenceId: ref, Metadata: world.Meta(w.User("U1"))})
	must(res.Err)
	w.SkywayEnd(world.At(ctx, 150, ctx.BlockTime()), nil)
	batches, err := w.App.SkywayKeeper.GetOutgoingTxBatches(ctx)
	must(err)
	if len(batches) != 1 {
		panic(fmt.Sprintf("setup: expected one outgoing batch, got %d", len(batches)))
	}
	e.batchNonce = batches[0].BatchNonce
	for _, t := range batches[0].Transactions {
		e.batchTotal += t.Erc20Token.Amount.Int64() + t.BridgeTaxAmount.Int64()
	}
	// powers: written through the same staking keeper API the Power op uses
	for i, v := range w.Vals {
		e.valIdx[v.ValAddr.String()] = i
	}
	must(e.setPowers(ctx, d.Powers))
	got, total := e.powers(ctx)
	for i := range got {
		if got[i] != d.Powers[i] {
			panic("setup: power not stored")
		}
	}
	_ = total
	if last, _ := w.App.SkywayKeeper.GetLastObservedSkywayNonce(ctx, ref); last != 0 {
		panic("setup: cursor not 0")
	}

	depV := func(name string, nonce, height uint64, erc20 string, amt int64, kind, compass, receiver string) {
		e.claims = append(e.claims, &claimDef{Name: name, Kind: kind, Nonce: nonce, Amount: amt, Compass: compass, Height: height, Build: func(v *world.Val) sdk.Msg {
			m := world.DepositClaim(v, ref, nonce, height, erc20, amt, ethSender, receiver)
			m.CompassId = compass
			return m
		}})
	}
	depC := func(name string, nonce uint64, erc20 string, amt int64, kind, compass string) {
		depV(name, nonce, 1, erc20, amt, kind, compass, e.rcv.Addr.String())
	}
	dep := func(name string, nonce uint64, erc20 string, amt int64, kind string) {
		depC(name, nonce, erc20, amt, kind, world.CompassID)
	}
	if d.Variants {
		// nonce 1: the genuine deposit G and three claims that differ from it only in the spelling of the free-form
		// receiver; nonce 2: deposits reporting a remote height below / equal to / above the one G records
		R := e.rcv.Addr.String()
		mixed := []byte(R)
		for i := strings.Index(R, "1") + 1; i < len(mixed); i++ {
			if mixed[i] >= 'a' && mixed[i] <= 'z' {
				mixed[i] -= 'a' - 'A'
				break
			}
		}
		depV("G", 1, 100, erc20Reg, 7, "deposit", world.CompassID, R)
		depV("Gmixed", 1, 100, erc20Reg, 7, "deposit", world.CompassID, string(mixed))
		depV("Gupper", 1, 100, erc20Reg, 7, "deposit", world.CompassID, strings.ToUpper(R))
		depV("Gblank", 1, 100, erc20Reg, 7, "deposit", world.CompassID, R+" ")
		depV("Lower", 2, 90, erc20Reg, 5, "deposit", world.CompassID, R)
		depV("Equal", 2, 100, erc20Reg, 6, "deposit", world.CompassID, R)
		depV("Higher", 2, 110, erc20Reg, 8, "deposit", world.CompassID, R)
	} else if d.Compass {
		// deposits D1 (nonce 1) and D2 (nonce 2), each as it would be reported for every deployment id of the
		// scenario, without a compass id, and for a foreign id
		for _, c := range compassIDs {
			depC("D1@"+c.tag, 1, erc20Reg, 7, "deposit", c.id)
			depC("D2@"+c.tag, 2, erc20Reg, 5, "deposit", c.id)
		}
	} else {
		dep("cA", 1, erc20Reg, 7, "deposit")
		dep("cB", 1, erc20Reg, 9, "deposit")
		e.claims = append(e.claims, &claimDef{Name: "cX", Kind: "batch", Nonce: 1, Compass: world.CompassID, Height: 1, Build: func(v *world.Val) sdk.Msg {
			return world.BatchExecutedClaim(v, ref, 1, 1, e.batchNonce, erc20Reg)
		}})
		dep("cC", 2, erc20Reg, 5, "deposit")
		if sl.Unreg {
			dep("cU", 1, erc20Unk, 3, "deposit-unregistered")
		}
	}
	for i, c := range e.claims {
		m := c.Build(w.Vals[0]).(skywaytypes.EthereumClaim)
		h, err := m.ClaimHash()
		must(err)
		c.Hash = hex.EncodeToString(h) // claims are told apart by body, not by hash: the hash is under test
		c.Body = bodyKey(m)
		if _, dup := e.byBody[c.Body]; dup {
			panic("setup: two claims of the alphabet have the same body")
		}
		e.byBody[c.Body] = i
		if dc, ok := m.(*skywaytypes.MsgSendToPalomaClaim); ok && c.Kind == "deposit" {
			a, err := skywaytypes.IBCAddressFromBech32(dc.PalomaReceiver)
			c.Pays = err == nil && sdk.AccAddress(a).Equals(e.rcv.Addr)
		}
	}
	e.bal0 = w.Balance(ctx, e.rcv.Addr, denom)
	e.sup0 = w.Supply(ctx, denom)
	e.esc0 = w.Balance(ctx, w.SkywayModuleAddr(), denom)
	if e.esc0.Int64() != e.batchTotal {
		panic(fmt.Sprintf("setup: escrow %s != batch total %d", e.esc0, e.batchTotal))
	}
	return e
}

func (e *env) ghost0() *ghost {
	g := &ghost{Voters: make([]uint8, len(e.claims)), Obs: make([]bool, len(e.claims)), Eff: make([]uint8, len(e.claims)), EpochNonces: []uint64{}, Deploy: world.CompassID}
	if e.d.Legacy {
		g.Deploy = ""
	}
	return g
}

// compass ids of the deployment scenarios: the initial deployment, the ids later
// activations use, none, and one that is never deployed.
var compassIDs = []struct{ tag, id string }{
	{"c1", world.CompassID}, {"c2", "verif-compass-2"}, {"c3", "verif-compass-3"}, {"none", ""}, {"foreign", "verif-compass-foreign"},
}

func compassTag(id string) string {
	for _, c := range compassIDs {
		if c.id == id {
			return c.tag
		}
	}
	return id
}

// maxActivations bounds the ActivateCompass steps of one history.
func (e *env) maxActivations() int {
	if e.r.Thorough() || e.sl.Replay {
		return 2
	}
	return 1
}

func (e *env) powers(ctx sdk.Context) ([]int64, int64) {
	var out []int64
	for _, v := range e.w.Vals {
		p, err := e.w.App.StakingKeeper.GetLastValidatorPower(ctx, v.ValAddr)
		must(err)
		out = append(out, p)
	}
	t, err := e.w.App.StakingKeeper.GetLastTotalPower(ctx)
	must(err)
	return out, t.Int64()
}

func (e *env) setPowers(ctx sdk.Context, ps []int64) error {
	var total int64
	for i, v := range e.w.Vals {
		if err := e.w.App.StakingKeeper.SetLastValidatorPower(ctx, v.ValAddr, ps[i]); err != nil {
			return err
		}
		total += ps[i]
	}
	return e.w.App.StakingKeeper.SetLastTotalPower(ctx, sdkmath.NewInt(total))
}

func (e *env) hash(n *explore.Node) string {
	ps, t := e.powers(n.Ctx)
	h := sha256.Sum256([]byte(fmt.Sprint(n.Ghost.Key(), "|", e.w.StoreDigest(n.Ctx, "skyway"), "|", ps, t)))
	if len(n.Path) > e.keepDepth || len(n.Path) >= e.sl.Depth {
		// release the store overlay: a state at the depth bound is never expanded (most states are on the last
		// level); the others are rebuilt when they are expanded (see ops)
		n.Ctx = sdk.Context{}
	}
	if len(n.Path) >= e.sl.Depth {
		n.Ghost, n.Path = nil, nil
	}
	if e.hashed++; e.hashed%50000 == 0 {
		var ms runtime.MemStats
		runtime.ReadMemStats(&ms)
		if ms.HeapAlloc > e.maxHeap {
			e.maxHeap = ms.HeapAlloc
		}
	}
	return string(h[:16])
}

func (e *env) cursor(ctx sdk.Context) uint64 {
	last, err := e.w.App.SkywayKeeper.GetLastObservedSkywayNonce(ctx, ref)
	must(err)
	return last
}

func (e *env) names(mask uint8) string {
	var s []string
	for i := range e.w.Vals {
		if mask&(1<<i) != 0 {
			s = append(s, fmt.Sprintf("v%d", i))
		}
	}
	return "{" + strings.Join(s, ",") + "}"
}

// post is the step oracle; it runs after every operation.
func (e *env) post(ctx sdk.Context, g *ghost, count bool) *explore.Fail {
	k := e.w.App.SkywayKeeper
	g.refused, g.refusedKind = "", ""
	seen := make([]bool, len(e.claims))
	votes := make([][]int, len(e.claims))
	var newly []int
	var fail *explore.Fail
	err := k.IterateAttestations(ctx, ref, false, func(_ []byte, att skywaytypes.Attestation) bool {
		claim, err := k.UnpackAttestationClaim(&att)
		if err != nil {
			fail = explore.Failf("harness:unpack", "cannot unpack attestation: %v", err)
			return true
		}
		// the stored claim is identified by its body (every field), never by the hash under test
		ci, ok := e.byBody[bodyKey(claim)]
		if !ok {
			fail = explore.Failf("harness:unknown-attestation", "attestation for a claim outside the alphabet at nonce %d", claim.GetSkywayNonce())
			return true
		}
		c := e.claims[ci]
		if seen[ci] {
			fail = explore.Failf("identity:two-attestations-for-one-claim-body", "two attestations store the body of %s", c.Name)
			return true
		}
		seen[ci] = true
		for _, v := range att.Votes {
			vi, ok := e.valIdx[v]
			if !ok {
				vi = -1
			}
			votes[ci] = append(votes[ci], vi)
		}
		switch {
		case att.Observed && !g.Obs[ci]:
			newly = append(newly, ci)
		case !att.Observed && g.Obs[ci]:
			fail = explore.Failf("observed:flag-reverted", "attestation %s was Observed and is not any more", c.Name)
			return true
		}
		return false
	})
	if fail != nil {
		return fail
	}
	if err != nil {
		return explore.Failf("harness:iterate", "IterateAttestations: %v", err)
	}
	for ci, o := range g.Obs {
		if o && !seen[ci] {
			return explore.Failf("observed:flag-reverted", "Observed attestation %s vanished from the store", e.claims[ci].Name)
		}
	}
	sort.Slice(newly, func(i, j int) bool {
		a, b := e.claims[newly[i]], e.claims[newly[j]]
		if a.Nonce != b.Nonce {
			return a.Nonce < b.Nonce
		}
		return a.Name < b.Name
	})
	isNew := map[int]bool{}
	for _, ci := range newly {
		isNew[ci] = true
	}
	ps, total := e.powers(ctx)
	power := func(ci int) int64 { // current power of the distinct validators that voted for exactly this body
		var pw int64
		for i := range e.w.Vals {
			if g.Voters[ci]&(1<<i) != 0 {
				pw += ps[i]
			}
		}
		return pw
	}
	eligible := func(ci int) bool { // unobserved, stored, quorum of identical votes, of the current deployment
		c := e.claims[ci]
		return seen[ci] && !g.Obs[ci] && !isNew[ci] && power(ci)*100 > 66*total && (g.Deploy == "" || c.Compass == g.Deploy)
	}
	// The keeper refuses to lower the recorded remote block height. On this tree a quorum claim at cursor+1 that
	// reports a lower height has the cursor written and is then dropped (no Observed flag, no effect, never
	// retried): the nonce is consumed without effect. Accepted reading, see r.Assumptions.
	consumeRefused := func(limit uint64) {
		for g.Cursor < limit {
			found := -1
			for ci, c := range e.claims {
				if c.Nonce == g.Cursor+1 && c.Height < g.LastHeight && eligible(ci) {
					found = ci
					break
				}
			}
			if found < 0 {
				return
			}
			g.Cursor++
			g.EpochNonces = append(g.EpochNonces, g.Cursor)
			g.refused, g.refusedKind = e.claims[found].Name, "lower-than-an-earlier-claim-of-this-epoch"
			if e.claims[found].Height >= g.EpochHeight {
				// not decreasing within this epoch: refused only because of a height recorded before the last reset
				g.refusedKind = "lower-only-than-a-height-recorded-before-the-last-reset"
			}
			if count {
				e.bump("nonces_consumed_by_claims_refused_for_lower_remote_height")
				e.bump("refused:" + g.refusedKind)
			}
		}
	}
	apply := func(ci int) {
		c := e.claims[ci]
		if g.Eff[ci] != 0 {
			return // its effect has been accounted for before it became Observed; a second application shows below
		}
		g.Eff[ci] = 1
		switch c.Kind {
		case "deposit":
			if c.Pays {
				g.Minted += c.Amount
			} else {
				g.Pooled += c.Amount
			}
		case "batch":
			if !g.BatchDone {
				g.BatchDone = true
				g.Burned = e.batchTotal
			}
		}
	}
	storeCursor := e.cursor(ctx)
	for _, ci := range newly {
		c := e.claims[ci]
		consumeRefused(c.Nonce - 1)
		pw := power(ci)
		var entries []string
		for _, vi := range votes[ci] {
			entries = append(entries, fmt.Sprintf("v%d", vi))
		}
		for _, vi := range votes[ci] {
			if vi < 0 || g.Voters[ci]&(1<<vi) == 0 {
				return explore.Failf("identity:observed-claim-counts-votes-cast-for-another-claim-body",
					"claim %s (nonce %d) became Observed with stored vote entries %v, but only %s submitted exactly this body (v%d voted for a claim that differs from it)",
					c.Name, c.Nonce, entries, e.names(g.Voters[ci]), vi)
			}
		}
		if g.Deploy != "" && c.Compass != g.Deploy {
			return explore.Failf("deployment:observed-claim-not-of-the-current-bridge-deployment",
				"claim %s (nonce %d, compass id %q) became Observed under the cursor of deployment %q (distinct voters %s, stored vote entries %v)",
				c.Name, c.Nonce, c.Compass, g.Deploy, e.names(g.Voters[ci]), entries)
		}
		if !(pw*100 > 66*total) {
			return explore.Failf("quorum:observed-with-distinct-voter-power<=66%",
				"claim %s (nonce %d) became Observed with distinct voters %s holding %d of %d power (%d%%, needs >66%%); stored vote entries %v; powers %v",
				c.Name, c.Nonce, e.names(g.Voters[ci]), pw, total, pct(pw, total), entries, ps)
		}
		for _, n := range g.EpochNonces {
			if n == c.Nonce {
				return explore.Failf("epoch:second-claim-observed-at-one-nonce", "claim %s observed at nonce %d, but that nonce was already taken in this reset epoch (so far %v)", c.Name, c.Nonce, g.EpochNonces)
			}
		}
		if c.Nonce != g.Cursor+1 {
			return explore.Failf("order:observed-nonce-not-consecutive", "claim %s observed at nonce %d while the last observed nonce of this epoch is %d", c.Name, c.Nonce, g.Cursor)
		}
		g.Cursor = c.Nonce
		g.EpochNonces = append(g.EpochNonces, c.Nonce)
		g.Obs[ci] = true
		g.LastHeight, g.EpochHeight = c.Height, c.Height
		apply(ci)
		if count {
			e.bump("observations:" + c.Kind)
			if pw != total {
				e.bump("observations_by_strict_subset_of_power")
			}
		}
	}
	consumeRefused(storeCursor)
	// effects: at most once per claim, exactly once per observed claim
	bal := new(big.Int).Sub(e.w.Balance(ctx, e.rcv.Addr, e.denom), e.bal0).Int64()
	sup := new(big.Int).Sub(e.w.Supply(ctx, e.denom), e.sup0).Int64()
	if bal != g.Minted || sup != g.Minted+g.Pooled-g.Burned {
		// Weakest reading of "takes effect only after >66% voted ... applied at most once": the effect of a deposit
		// claim that holds a quorum of identical votes and sits at cursor+1 may show before the Observed flag does;
		// it is accounted for once, here.
		for ci, c := range e.claims {
			if c.Kind != "deposit" || c.Nonce != g.Cursor+1 || g.Eff[ci] != 0 || !eligible(ci) {
				continue
			}
			m, p := g.Minted, g.Pooled
			if c.Pays {
				m += c.Amount
			} else {
				p += c.Amount
			}
			if bal == m && sup == m+p-g.Burned {
				apply(ci)
				if count {
					e.bump("effects_seen_before_the_observed_flag")
				}
				break
			}
		}
	}
	if bal > g.Minted {
		return explore.Failf("effect:deposit-applied-more-than-once-or-without-quorum", "receiver got %d; claims that took effect (each counted once) pay it %d", bal, g.Minted)
	}
	if bal < g.Minted {
		return explore.Failf("effect:deposit-not-applied", "receiver got %d, observed deposit claims (registered token, receiver string decodes) total %d", bal, g.Minted)
	}
	if sup != g.Minted+g.Pooled-g.Burned {
		return explore.Failf("effect:supply", "supply changed by %d; claims that took effect (each counted once): %d to the receiver + %d to the community pool - burn of executed batch %d", sup, g.Minted, g.Pooled, g.Burned)
	}
	esc := new(big.Int).Sub(e.esc0, e.w.Balance(ctx, e.w.SkywayModuleAddr(), e.denom)).Int64()
	if esc != g.Burned {
		return explore.Failf("effect:escrow", "escrow released %d, executed batch total %d", esc, g.Burned)
	}
	batches, err := k.GetOutgoingTxBatches(ctx)
	if err != nil {
		return explore.Failf("harness:batches", "%v", err)
	}
	if (len(batches) == 0) != g.BatchDone {
		return explore.Failf("effect:batch-deletion", "%d open batches while batch executed = %v", len(batches), g.BatchDone)
	}
	if got := k.GetLatestCompassID(ctx, ref); got != g.Deploy {
		return explore.Failf("deployment:latest-compass-id-changed-without-activation", "latest compass id on record is %q, last activation gave %q", got, g.Deploy)
	}
	if storeCursor != g.Cursor {
		return explore.Failf("order:cursor-moved-without-observation", "last observed nonce is %d; last reset, observations and refused quorum claims of this epoch give %d", storeCursor, g.Cursor)
	}
	return nil
}

// vote delivers validator vi's really signed vote for claim ci. The signed
// transaction bytes depend only on (validator, claim, account number, sequence)
// and are built once for each such combination.
func (e *env) vote(ctx sdk.Context, vi, ci int) world.TxResult {
	v := e.w.Vals[vi]
	acc := e.w.App.AccountKeeper.GetAccount(ctx, v.Addr)
	key := fmt.Sprintf("%d/%d/%d/%d", vi, ci, acc.GetAccountNumber(), acc.GetSequence())
	tx, ok := e.txCache[key]
	if !ok {
		var err error
		tx, err = e.w.BuildTx(ctx, []*world.Actor{v.Actor}, e.claims[ci].Build(v))
		if err != nil {
			return world.TxResult{Err: err, Stage: "build"}
		}
		e.txCache[key] = tx
	}
	return e.w.DeliverBuiltTx(ctx, tx)
}

// offered: in a deployment scenario validators report a claim with the compass id
// on record, without one, or with another one (the previous deployment's, or a
// foreign id while there is no previous deployment).
func (e *env) offered(g *ghost, c *claimDef) bool {
	if !e.d.Compass {
		return true
	}
	other := g.Prev
	if g.NAct == 0 {
		other = "verif-compass-foreign"
	}
	return c.Compass == g.Deploy || c.Compass == "" || c.Compass == other
}

// bodyKey renders every field of a claim except the voter (orchestrator, metadata).
func bodyKey(c skywaytypes.EthereumClaim) string {
	switch m := c.(type) {
	case *skywaytypes.MsgSendToPalomaClaim:
		return fmt.Sprintf("deposit|%d|%d|%d|%q|%s|%q|%q|%q|%q", m.EventNonce, m.SkywayNonce, m.EthBlockHeight, m.TokenContract, m.Amount, m.EthereumSender, m.PalomaReceiver, m.ChainReferenceId, m.CompassId)
	case *skywaytypes.MsgBatchSendToRemoteClaim:
		return fmt.Sprintf("batch|%d|%d|%d|%d|%q|%q|%q", m.EventNonce, m.SkywayNonce, m.EthBlockHeight, m.BatchNonce, m.TokenContract, m.ChainReferenceId, m.CompassId)
	}
	return fmt.Sprintf("other|%T|%v", c, c)
}

func pct(a, b int64) int64 {
	if b == 0 {
		return 0
	}
	return a * 100 / b
}

func (e *env) bump(k string) {
	f, _ := e.r.Extra[k].(float64)
	e.r.Extra[k] = f + 1
}

// ops is what the explorer calls for a state it is about to expand. To bound
// memory, states deeper than keepDepth do not keep their store overlay (hash
// drops it); it is rebuilt here by re-executing the last steps of the state's
// path from its retained ancestor at keepDepth. The rebuilt ghost must equal the
// recorded one (determinism self-check; a mismatch is a harness error).
func (e *env) ops(n *explore.Node) []explore.Op {
	d := len(n.Path)
	if d == e.keepDepth {
		e.anchors[strings.Join(n.Path, "|")] = n
	}
	if d > e.keepDepth {
		a := e.anchors[strings.Join(n.Path[:e.keepDepth], "|")]
		if a == nil {
			panic("c02: no retained ancestor for " + strings.Join(n.Path, " "))
		}
		cur := &explore.Node{Ctx: world.Fork(a.Ctx), Ghost: a.Ghost.Clone(), Path: append([]string{}, a.Path...)}
		e.rebuilding = true
		for _, label := range n.Path[e.keepDepth:] {
			found := false
			for _, op := range e.rawOps(cur) {
				if op.Label != label {
					continue
				}
				if f := op.Do(&cur.Ctx, cur.Ghost); f != nil {
					panic("c02: re-execution of " + strings.Join(n.Path, " ") + " fails: " + f.Message)
				}
				cur.Path = append(cur.Path, label)
				found = true
				break
			}
			if !found {
				panic("c02: re-execution of " + strings.Join(n.Path, " ") + ": step " + label + " not enabled")
			}
		}
		e.rebuilding = false
		if cur.Ghost.Key() != n.Ghost.Key() {
			panic("c02: re-execution of " + strings.Join(n.Path, " ") + " gives a different reference state (nondeterminism)")
		}
		n.Ctx = cur.Ctx
		e.rebuilt++
	}
	return e.rawOps(n)
}

func (e *env) rawOps(n *explore.Node) []explore.Op {
	w := e.w
	g0 := n.Ghost.(*ghost)
	// prefix levels are executed by every worker of a distribution: count them once
	count := !e.rebuilding && (e.sl.Sub == 0 || len(n.Path) >= e.shardDepth)
	var ops []explore.Op
	add := func(label string, do func(ctx *sdk.Context, g *ghost) *explore.Fail) {
		ops = append(ops, explore.Op{Label: label, Do: func(ctx *sdk.Context, gg explore.Ghost) *explore.Fail {
			g := gg.(*ghost)
			g.AfterOverride = false
			if f := do(ctx, g); f != nil {
				return f
			}
			f := e.post(*ctx, g, count)
			if f == nil && g.refused != "" && count {
				if _, ok := e.r.Extra["sample_refused_quorum_claim:"+g.refusedKind]; !ok {
					e.r.Extra["sample_refused_quorum_claim:"+g.refusedKind] = fmt.Sprintf("%s: %s · %s => %s holds a quorum at cursor+1 but reports a remote height below the recorded one: cursor advanced, claim neither Observed nor applied", e.d.Name, strings.Join(n.Path, " · "), label, g.refused)
				}
			}
			return f
		}})
	}
	// Partial-order reduction. Power(v,p) writes only the staking last powers, which
	// are read by the tally alone (Attest, the claim handlers and overrideNonce never
	// read them), so a Power step commutes with every Vote and Override step. Every
	// history is therefore equivalent to one in which power changes stand directly
	// before a Tally / CatchUp, in ascending validator order, one per validator
	// (Power(v,p)·Power(v,q) = Power(v,q)); only those are explored. Likewise
	// Override(a)·Override(b) leaves the state of Override(b).
	before := ""
	if g0.PowerPending == 0 {
		for vi := range w.Vals {
			for ci, c := range e.claims {
				if !e.offered(g0, c) {
					continue
				}
				vi, ci, c := vi, ci, c
				add(fmt.Sprintf("Vote(v%d,%s)", vi, c.Name), func(ctx *sdk.Context, g *ghost) *explore.Fail {
					if before == "" {
						before = w.StoreDigest(n.Ctx, "skyway") // the forked ctx starts as a copy of n.Ctx
					}
					res := e.vote(*ctx, vi, ci)
					if res.Stage == "ante" || res.Stage == "build" || res.Stage == "validate" || res.Stage == "panic" {
						return explore.Failf("harness:vote-"+res.Stage, "vote tx failed in %s: %v", res.Stage, res.Err)
					}
					if !res.OK() {
						if w.StoreDigest(*ctx, "skyway") != before {
							return explore.Failf("vote:rejected-vote-changed-state", "rejected vote (%v) changed the skyway store", res.Err)
						}
						if count {
							e.bump("votes_rejected")
						}
						return nil
					}
					if count {
						e.bump("votes_accepted")
						if g.Voters[ci]&(1<<vi) != 0 {
							e.bump("votes_accepted_repeat_of_same_validator_and_claim")
						}
					}
					g.Voters[ci] |= 1 << vi
					return nil
				})
			}
		}
	}
	add("Tally", func(ctx *sdk.Context, g *ghost) *explore.Fail {
		g.PowerPending = 0
		w.SkywayEnd(*ctx, nil)
		return nil
	})
	if e.d.Variants {
		if last := e.cursor(n.Ctx); last > 0 && !g0.AfterOverride {
			add("Override(0)", func(ctx *sdk.Context, g *ghost) *explore.Fail {
				err := w.GovExec(*ctx, &skywaytypes.MsgNonceOverrideProposal{Metadata: world.MetaFor(w.Gov, &world.Actor{Addr: sdk.MustAccAddressFromBech32(w.Gov)}), ChainReferenceId: ref, Nonce: 0})
				if err != nil {
					return explore.Failf("harness:override", "override rejected: %v", err)
				}
				g.Epoch++
				g.Cursor = 0
				g.EpochNonces = []uint64{}
				g.EpochHeight = 0
				g.AfterOverride = true
				if count {
					e.bump("overrides")
				}
				return nil
			})
		}
		return ops
	}
	if e.d.Compass {
		if g0.NAct < e.maxActivations() {
			id := compassIDs[g0.NAct+1] // c2, then c3
			add("ActivateCompass("+id.tag+")", func(ctx *sdk.Context, g *ghost) *explore.Fail {
				// the real activation path: chain info switched to the new contract, eventbus.EVMActivatedChain published
				// (skyway: latest compass id recorded, cursor and validator nonces reset to 0)
				err := w.App.EvmKeeper.ActivateChainReferenceID(*ctx, ref, &evmtypes.SmartContract{Id: uint64(g.NAct + 2), AbiJSON: e.abi, Bytecode: []byte{0x60, 0x80}}, world.CompassAddr, []byte(id.id))
				if err != nil {
					return explore.Failf("harness:activate", "activation rejected: %v", err)
				}
				g.Prev, g.Deploy = g.Deploy, id.id
				g.NAct++
				g.Epoch++
				g.Cursor = 0
				g.EpochNonces = []uint64{}
				g.EpochHeight = 0
				if count {
					e.bump("compass_activations")
				}
				return nil
			})
		}
		return ops
	}
	add("CatchUp", func(ctx *sdk.Context, g *ghost) *explore.Fail {
		g.PowerPending = 0
		w.SkywayEnd(world.At(*ctx, 150, ctx.BlockTime()), nil)
		return nil
	})
	cur, _ := e.powers(n.Ctx)
	for vi := range w.Vals {
		if vi+1 <= g0.PowerPending {
			continue
		}
		for _, p := range []int64{0, e.d.Powers[vi], 2 * e.d.Powers[vi]} {
			if p == cur[vi] {
				continue
			}
			vi, p := vi, p
			add(fmt.Sprintf("Power(v%d,%d)", vi, p), func(ctx *sdk.Context, g *ghost) *explore.Fail {
				ps, _ := e.powers(*ctx)
				ps[vi] = p
				if err := e.setPowers(*ctx, ps); err != nil {
					return explore.Failf("harness:power", "%v", err)
				}
				g.PowerPending = vi + 1
				if count {
					e.bump("power_changes")
				}
				return nil
			})
		}
	}
	if g0.PowerPending == 0 && !g0.AfterOverride && os.Getenv("C02_NO_OVERRIDE") == "" {
		last := e.cursor(n.Ctx)
		for _, k := range []int64{int64(last) - 1, int64(last), int64(last) + 1} {
			if k < 0 {
				continue
			}
			k := uint64(k)
			add(fmt.Sprintf("Override(%d)", k), func(ctx *sdk.Context, g *ghost) *explore.Fail {
				err := w.GovExec(*ctx, &skywaytypes.MsgNonceOverrideProposal{Metadata: world.MetaFor(w.Gov, &world.Actor{Addr: sdk.MustAccAddressFromBech32(w.Gov)}), ChainReferenceId: ref, Nonce: k})
				if err != nil {
					return explore.Failf("harness:override", "override rejected: %v", err)
				}
				g.Epoch++
				g.Cursor = k
				g.EpochNonces = []uint64{}
				g.EpochHeight = 0
				g.AfterOverride = true
				if count {
					e.bump("overrides")
				}
				return nil
			})
		}
	}
	return ops
}
