package main

import (
	"fmt"
	"time"

	sdkmath "cosmossdk.io/math"
	sdk "github.com/cosmos/cosmos-sdk/types"
	evmtypes "github.com/palomachain/paloma/v2/x/evm/types"
	schedtypes "github.com/palomachain/paloma/v2/x/scheduler/types"
	treasurytypes "github.com/palomachain/paloma/v2/x/treasury/types"
	vtypes "github.com/palomachain/paloma/v2/x/valset/types"
	"github.com/palomachain/paloma/v2/zzverif/world"
)

// ---------------------------------------------------------------------------
// (a) assignment

const nOpt = 48

// opt decodes one validator's row of the eligibility table.
type opt struct {
	InSnap, Acct, Metrics, Mev bool
	Fee                        int // 0 none, 1 = 0.5, 2 = 1.0
}

func decode(o int) opt {
	return opt{InSnap: o&1 != 0, Acct: o&2 != 0, Metrics: o&4 != 0, Mev: o&8 != 0, Fee: o / 16}
}

func (o opt) String() string {
	b := func(v bool, s string) string {
		if v {
			return s
		}
		return "-"
	}
	return b(o.InSnap, "S") + b(o.Acct, "A") + b(o.Metrics, "M") + b(o.Mev, "V") + []string{"f-", "f.5", "f1"}[o.Fee]
}

type caseA struct {
	Opts  [3]int `json:"opts"`
	MEV   bool   `json:"mev_required"`
	T     int    `json:"t"`
	Drift bool   `json:"drift"`
	// Dup: every snapshot entry with an account on the target chain lists a SECOND account on that
	// chain (another address, the opposite MEV trait) after the first one
	Dup bool `json:"dup,omitempty"`
}

func (c caseA) String() string {
	return fmt.Sprintf("table[v0=%s v1=%s v2=%s] mev_required=%v t=+%ds drift=%v", decode(c.Opts[0]), decode(c.Opts[1]), decode(c.Opts[2]), c.MEV, c.T, c.Drift) + map[bool]string{true: " two-accounts-on-target"}[c.Dup]
}

// infosFor is validator i's chain-info list as recorded in the snapshot entry.
// The other chain's entry comes first and carries the opposite MEV trait (so a
// trait or an address taken from the wrong chain's entry shows); without an
// account on the target chain the MEV trait (if any) sits on the other chain's
// entry, where it must not count.
func (e *env) infosFor(i int, o opt) []*vtypes.ExternalChainInfo {
	if o.Acct && e.dupMode {
		return []*vtypes.ExternalChainInfo{chainInfo(other, e.otherA[i], !o.Mev), chainInfo(target, e.snapA[i], o.Mev), chainInfo(target, e.dupAddr(i), !o.Mev)}
	}
	if o.Acct {
		return []*vtypes.ExternalChainInfo{chainInfo(other, e.otherA[i], !o.Mev), chainInfo(target, e.snapA[i], o.Mev)}
	}
	return []*vtypes.ExternalChainInfo{chainInfo(other, e.otherA[i], o.Mev)}
}

func (e *env) dupAddr(i int) string { return ethAddrOf("c14-dup-" + e.w.Vals[i].Name) }

// applyTable writes one eligibility table into ctx with keeper APIs.
func (e *env) applyTable(ctx sdk.Context, opts [3]int, drift bool) {
	w := e.w
	snap := *e.baseSnap
	snap.Validators = nil
	snap.TotalShares = sdkmath.ZeroInt()
	syn := vtypes.Snapshot{Id: snap.Id, TotalShares: sdkmath.ZeroInt()}
	for i, v := range w.Vals {
		o := decode(opts[i])
		infos := e.infosFor(i, o)
		entry := vtypes.Validator{Address: v.ValAddr, ShareCount: v.Stake, State: vtypes.ValidatorState_ACTIVE, ExternalChainInfos: infos}
		if o.InSnap {
			snap.Validators = append(snap.Validators, entry)
			snap.TotalShares = snap.TotalShares.Add(v.Stake)
		}
		if o.Metrics {
			syn.Validators = append(syn.Validators, entry)
		}
		switch o.Fee {
		case 1:
			must(w.SetFee(ctx, v, target, "0.5"))
		case 2:
			must(w.SetFee(ctx, v, target, "1.0"))
		default:
			switch i {
			case 0: // no record at all
			case 1: // empty record
				must(w.App.TreasuryKeeper.SetRelayerFee(ctx, v.ValAddr, &treasurytypes.RelayerFeeSetting{ValAddress: v.ValAddr.String()}))
			default: // record for another chain only
				must(w.SetFee(ctx, v, other, "0.7"))
			}
		}
		// current registration
		if drift {
			must(w.App.ValsetKeeper.AddExternalChainInfo(ctx, v.ValAddr, []*vtypes.ExternalChainInfo{
				chainInfo(other, e.otherA[i], o.Mev), chainInfo(target, e.driftA[i], !o.Mev)}))
		} else if o.InSnap {
			must(w.App.ValsetKeeper.AddExternalChainInfo(ctx, v.ValAddr, infos))
		}
	}
	must(w.App.ValsetKeeper.SaveModifiedSnapshot(ctx, &snap))
	if len(syn.Validators) > 0 {
		w.App.MetrixKeeper.OnSnapshotBuilt(ctx, &syn)
	}
}

// eligible is the reference eligible set (bit i = validator i).
func eligible(opts [3]int, mev bool) (set int, why [3]string) {
	for i := 0; i < 3; i++ {
		o := decode(opts[i])
		switch {
		case !o.InSnap:
			why[i] = "not-in-snapshot"
		case !o.Acct:
			why[i] = "no-account-on-target-chain"
		case o.Fee == 0:
			why[i] = "no-relayer-fee"
		case !o.Metrics:
			why[i] = "no-metrics-record"
		case mev && !o.Mev:
			why[i] = "no-mev-trait"
		default:
			set |= 1 << i
		}
	}
	return
}

type aTxs struct {
	n, m sdk.Tx
	t0   time.Time
}

func (e *env) buildATxs() aTxs {
	w := e.w
	var t aTxs
	var err error
	t.n, err = w.BuildTx(w.Root, []*world.Actor{e.s1}, &schedtypes.MsgExecuteJob{JobID: jobN, Metadata: world.Meta(e.s1)})
	must(err)
	t.m, err = w.BuildTx(w.Root, []*world.Actor{e.s1}, &schedtypes.MsgExecuteJob{JobID: jobM, Metadata: world.Meta(e.s1)})
	must(err)
	t.t0 = w.Root.BlockTime()
	return t
}

// evalA runs one request on a fork of the table state tctx (digest d0).
func (e *env) evalA(tctx sdk.Context, d0 string, txs aTxs, c caseA) {
	w, r := e.w, e.r
	ctx := world.At(world.Fork(tctx), tctx.BlockHeight(), txs.t0.Add(time.Duration(c.T)*time.Second))
	tx := txs.n
	if c.MEV {
		tx = txs.m
	}
	res := w.DeliverBuiltTx(ctx, tx)
	set, why := eligible(c.Opts, c.MEV)
	// two accounts on the target chain with different traits: which of them decides whether the validator
	// "carries the MEV trait" is not fixed by the property, so for MEV jobs the reference only demands the
	// base conditions of the assignee and that the SIGNED address is an account that carries the trait
	dupMEV := c.Dup && c.MEV
	if dupMEV {
		set, why = eligible(c.Opts, false)
	}
	if set != 0 {
		r.DistinctN++
	}
	r.Case("")
	rec := replayRec{Part: "a", A: &c}
	if res.Stage == "ante" || res.Stage == "build" || res.Stage == "validate" || res.Stage == "panic" {
		r.Violate("harness:a:tx-"+res.Stage, fmt.Sprintf("%s: execute-job tx failed in stage %s: %v", c, res.Stage, res.Err), rec)
		return
	}
	d1 := w.StoreDigest(ctx, world.ConsensusStore)
	if !res.OK() {
		e.count("a_requests_failed")
		if set != 0 && !dupMEV {
			r.Violate("assign:request-failed-with-eligible-validator", fmt.Sprintf("%s: reference eligible set %03b is not empty but the request failed: %v", c, set, res.Err), rec)
		}
		if d1 != d0 {
			r.Violate("assign:failed-request-changed-queues", fmt.Sprintf("%s: request failed (%v) but the consensus store changed", c, res.Err), rec)
		}
		return
	}
	e.count("a_requests_succeeded")
	msgs := w.Queue(ctx, e.queue)
	if len(msgs) != 1 {
		r.Violate("assign:success-queue-shape", fmt.Sprintf("%s: request succeeded, %d messages in the queue (want 1)", c, len(msgs)), rec)
		return
	}
	cm, err := msgs[0].ConsensusMsg(w.App.AppCodec())
	em, _ := cm.(*evmtypes.Message)
	if err != nil || em == nil || em.GetSubmitLogicCall() == nil {
		r.Violate("assign:success-queue-shape", fmt.Sprintf("%s: queued message is not a SubmitLogicCall: %v %T", c, err, cm), rec)
		return
	}
	if got := em.GetSubmitLogicCall().ExecutionRequirements.EnforceMEVRelay; got != c.MEV {
		r.Violate("assign:mev-requirement-not-carried", fmt.Sprintf("%s: queued call has EnforceMEVRelay=%v", c, got), rec)
	}
	ai := e.valIndex(em.Assignee)
	if ai < 0 {
		r.Violate("assign:assignee-unknown", fmt.Sprintf("%s: assignee %q is no validator", c, em.Assignee), rec)
		return
	}
	e.count(fmt.Sprintf("a_assigned_to_v%d_of_%d_eligible", ai, popcount(set)))
	if set&(1<<ai) == 0 {
		r.Violate("assign:ineligible-assignee:"+why[ai], fmt.Sprintf("%s: assigned to v%d which is not eligible (%s); reference eligible set %03b", c, ai, why[ai], set), rec)
		return
	}
	if c.Dup && em.AssigneeRemoteAddress == e.dupAddr(ai) || c.Dup && em.AssigneeRemoteAddress == e.snapA[ai] {
		// either account of the assignee on the target chain; for an MEV job the signed one must carry the trait
		o := decode(c.Opts[ai])
		signedHasMev := o.Mev == (em.AssigneeRemoteAddress == e.snapA[ai])
		e.count("a_dup_assignments")
		if c.MEV && !signedHasMev {
			r.Violate("assign:signed-account-lacks-mev-trait", fmt.Sprintf("%s: MEV job assigned to v%d with signed relayer address %s, an account of v%d that does not carry the MEV trait (its other account on the chain does)", c, ai, em.AssigneeRemoteAddress, ai), rec)
		}
	} else if em.AssigneeRemoteAddress != e.snapA[ai] {
		src := "neither snapshot nor current registration"
		switch em.AssigneeRemoteAddress {
		case e.driftA[ai]:
			src = "the validator's CURRENT registration"
		case e.otherA[ai]:
			src = "the validator's entry for ANOTHER chain"
		}
		r.Violate("assign:remote-address-not-from-snapshot", fmt.Sprintf("%s: assignee v%d remote address %s comes from %s; the current snapshot records %s", c, ai, em.AssigneeRemoteAddress, src, e.snapA[ai]), rec)
	}
	if c.T == 0 && c.MEV && c.Opts[0]%7 == 3 && c.Opts[1] == 47 && c.Opts[2]%11 == 5 {
		e.sample("a", map[string]interface{}{"part": "a", "case": c.String(), "eligible": fmt.Sprintf("%03b", set), "assignee": ai, "remote": em.AssigneeRemoteAddress})
	}
}

func popcount(x int) int {
	n := 0
	for ; x != 0; x &= x - 1 {
		n++
	}
	return n
}

// failing counts the base conditions (in snapshot, account, fee, metrics) row o fails.
func failing(o int) int {
	d := decode(o)
	n := 0
	for _, ok := range []bool{d.InSnap, d.Acct, d.Fee != 0, d.Metrics} {
		if !ok {
			n++
		}
	}
	return n
}

// runTables enumerates tables in a fixed order. maxFar bounds the number of
// validators whose row fails two or more of the four base conditions (3 = the
// full product 48^3; 1 = 18^3 + 3*30*18^2 = 34,992 tables; 0 = 18^3 = 5,832).
func (e *env) runTables(shard, nshards int, drift bool, maxFar int, times int, txs aTxs) {
	w := e.w
	idx := 0
	for o0 := 0; o0 < nOpt; o0++ {
		for o1 := 0; o1 < nOpt; o1++ {
			for o2 := 0; o2 < nOpt; o2++ {
				far := 0
				for _, o := range []int{o0, o1, o2} {
					if failing(o) >= 2 {
						far++
					}
				}
				if far > maxFar {
					continue
				}
				idx++
				if idx%nshards != shard {
					continue
				}
				if e.expired("a") {
					return
				}
				opts := [3]int{o0, o1, o2}
				tctx := world.Fork(w.Root)
				e.applyTable(tctx, opts, drift)
				d0 := w.StoreDigest(tctx, world.ConsensusStore)
				e.count("a_tables")
				for _, mev := range []bool{false, true} {
					nt := times
					if set, _ := eligible(opts, mev); set == 0 && !e.r.Thorough() {
						// quick tier: a request that must fail is made at one block time only
						// (the pick index cannot matter when nothing may be picked); thorough
						// makes it at every block time
						nt = 1
					}
					for t := 0; t < nt; t++ {
						e.evalA(tctx, d0, txs, caseA{Opts: opts, MEV: mev, T: t, Drift: drift, Dup: e.dupMode})
					}
				}
			}
		}
	}
}

func (e *env) partA(shard, nshards int) {
	txs := e.buildATxs()
	if e.r.Thorough() {
		e.r.Extra["a_product"] = "full 48^3 tables x MEV{no,yes} x consecutive block times (6 with drifted registration, 3 with same registration)"
		e.runTables(shard, nshards, true, 3, 6, txs)
		e.runTables(shard, nshards, false, 3, 3, txs)
		e.dupMode = true
		e.runTables(shard, nshards, false, 1, 2, txs)
		e.dupMode = false
		return
	}
	e.r.Extra["a_product"] = "quick sub-product: drifted registration: the 34,992 tables in which at most one validator fails two or more of {in snapshot, account, fee, metrics} (every row for every validator) x MEV{no,yes} x 3 consecutive block times (1 when the reference eligible set is empty); same registration: the 5,832 tables in which no validator does x MEV{no,yes} x 1 block time, and the same 5,832 tables once more with a second account (other address, opposite MEV trait) listed after the first on the target chain in every snapshot entry; thorough enumerates the full 48^3 product in both modes and the two-account variant over the 34,992-table sub-product x 2 block times"
	e.runTables(shard, nshards, true, 1, 3, txs)
	e.runTables(shard, nshards, false, 0, 1, txs)
	e.dupMode = true
	e.runTables(shard, nshards, false, 0, 1, txs)
	e.dupMode = false
}

func (e *env) replayA(c caseA) {
	txs := e.buildATxs()
	tctx := world.Fork(e.w.Root)
	e.dupMode = c.Dup
	e.applyTable(tctx, c.Opts, c.Drift)
	e.evalA(tctx, e.w.StoreDigest(tctx, world.ConsensusStore), txs, c)
}
