package report

import (
	"encoding/json"
	"fmt"
	"os"
	"os/exec"
	"path/filepath"
	"runtime"
	"strconv"
	"sync"
)

// Workers is the number of worker processes to use.
func Workers() int {
	if v, err := strconv.Atoi(os.Getenv("VERIF_WORKERS")); err == nil && v > 0 {
		return v // development aid on a shared machine
	}
	n := runtime.NumCPU()
	if n > 16 {
		n = 16
	}
	if n < 1 {
		n = 1
	}
	return n
}

// Main runs body either as a worker (writes its partial result) or as the
// parent which spawns n workers of this same binary and merges them.
// body must be deterministic given (shard, nshards).
func Main(property, level string, n int, body func(r *Run, shard, nshards int)) {
	if IsWorker() {
		i, cnt := Shard()
		r := New(property, level)
		body(r, i, cnt)
		os.Exit(r.WorkerFinish())
	}
	r := New(property, level)
	if n <= 1 {
		body(r, 0, 1)
		os.Exit(r.Finish())
	}
	tmp, err := os.MkdirTemp("", "verif-"+property)
	if err != nil {
		fmt.Fprintln(os.Stderr, err)
		os.Exit(2)
	}
	defer os.RemoveAll(tmp)
	var wg sync.WaitGroup
	errs := make([]error, n)
	outs := make([]string, n)
	for i := 0; i < n; i++ {
		wg.Add(1)
		go func(i int) {
			defer wg.Done()
			out := filepath.Join(tmp, fmt.Sprintf("w%d.json", i))
			outs[i] = out
			cmd := exec.Command(os.Args[0], os.Args[1:]...)
			cmd.Env = append(os.Environ(), fmt.Sprintf("VERIF_WORKER=%d/%d", i, n), "VERIF_WORKER_OUT="+out, "GOMAXPROCS=2")
			cmd.Stdout = os.Stderr
			cmd.Stderr = os.Stderr
			errs[i] = cmd.Run()
		}(i)
	}
	wg.Wait()
	for i := 0; i < n; i++ {
		if errs[i] != nil {
			fmt.Fprintf(os.Stderr, "worker %d failed: %v\n", i, errs[i])
			os.RemoveAll(tmp)
			os.Exit(2)
		}
		b, err := os.ReadFile(outs[i])
		if err != nil {
			fmt.Fprintf(os.Stderr, "worker %d output: %v\n", i, err)
			os.RemoveAll(tmp)
			os.Exit(2)
		}
		var w wire
		if err := json.Unmarshal(b, &w); err != nil {
			fmt.Fprintf(os.Stderr, "worker %d output: %v\n", i, err)
			os.RemoveAll(tmp)
			os.Exit(2)
		}
		r.merge(w)
	}
	r.Extra["worker_processes"] = n
	code := r.Finish()
	os.RemoveAll(tmp)
	os.Exit(code)
}
